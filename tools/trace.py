#!/usr/bin/env python3
"""debug aid: print the abstract paths of one function:  tools/trace.py <q-suffix> [cfg]"""
import sys, os
sys.path.insert(0, os.path.dirname(os.path.dirname(os.path.abspath(__file__))))
from rules.lib import facts, absint
from rules.lib.absint import fmt_val, fmt_loc

def show_event(e):
    k = e["ev"]; ind = "  " * e.get("depth", 0)
    ln = e.get("ln", "")
    if k == "call":
        extra = ""
        if "hm" in e:
            extra = " recv=%s key=%s present=%s node=%s" % (fmt_loc(e["recv"]), fmt_val(e["keysrc"]), e.get("present"), fmt_val(e.get("node")))
        return "%s[%s] CALL %s(%s)%s -> #%d" % (ind, ln, e["q"], ", ".join(fmt_val(a) for a in e["args"]), extra, e["id"])
    if k == "enter": return "%s[%s] ENTER %s(%s)" % (ind, ln, e["q"], ", ".join(fmt_val(a) for a in e["args"]))
    if k == "exit": return "%s[%s] EXIT  %s => %s" % (ind, ln, e["q"], fmt_val(e["ret"]))
    if k == "store": return "%s[%s] STORE %s := %s" % (ind, ln, fmt_loc(e["loc"]), fmt_val(e["val"]))
    if k == "branch":
        return "%s[%s] BRANCH %s : %s" % (ind, ln, fmt_val(e["cond"]), e.get("variant", e.get("outcome")))
    if k == "swap": return "%s[%s] SWAP %s <-> %s" % (ind, ln, fmt_loc(e["a"]), fmt_loc(e["b"]))
    if k == "drop": return "%s[%s] DROP %s : %s%s" % (ind, ln, fmt_loc(e["loc"]) if e["loc"] else fmt_val(e["val"]), e["ty"], " (moved)" if e.get("moved") else "")
    if k == "assert": return "%s[%s] ASSERT %s %s" % (ind, ln, e["msg"], [fmt_val(o) for o in e["ops"]])
    rest = {a: (fmt_val(b) if isinstance(b, tuple) and a not in ("loc", "a", "b") else (fmt_loc(b) if a in ("loc",) and b else b)) for a, b in e.items() if a not in ("ev", "fn", "depth", "fid", "bb", "f")}
    return "%s[%s] %s %s" % (ind, ln, k.upper(), rest)

if __name__ == "__main__":
    q = sys.argv[1]; cfg = sys.argv[2] if len(sys.argv) > 2 else "std"
    F = facts.load(cfg)
    f = F.find(q)
    it = absint.Interp(F)
    paths = it.run(f["path"])
    print("%s: %d paths, %d steps" % (f["q"], len(paths), it.steps))
    lim = int(os.environ.get("NPATHS", "50"))
    for i, p in enumerate(paths[:lim]):
        print("---- path %d  ret=%s" % (i, fmt_val(p.ret)))
        for e in p.events:
            print("   " + show_event(e))
