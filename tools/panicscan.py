import sys, os, collections
sys.path.insert(0, os.path.dirname(os.path.dirname(os.path.abspath(__file__))))
from rules.lib import ctx, api
from rules.lib.absint import fmt_val
cfg = sys.argv[1] if len(sys.argv) > 1 else "std"
cx = ctx.Ctx(); F = cx.facts[cfg]
sites = collections.OrderedDict()
for f in api.roots(F):
    for p in cx.paths(cfg, f["path"]):
        for e in p.events:
            k = None
            if e["ev"] == "unwrap": k = ("unwrap", e["q"].split("::")[-1] + ":" + str(e.get("known")))
            elif e["ev"] == "assert": k = ("assert", e["msg"])
            elif e["ev"] == "call" and (e["q"] or "").split("::")[-1] in ("index", "index_mut") : k = ("index", e["q"])
            elif e["ev"] == "call" and ("panic" in (e["q"] or "") or "unreachable" in (e["q"] or "")): k = ("panic", e["q"])
            if k:
                g = F.fns.get(e["fn"])
                key = (g["q"] if g else e["fn"], e.get("ln")) + k
                s = sites.setdefault(key, {"n": 0, "roots": set(), "ex": None})
                s["n"] += 1; s["roots"].add(f["q"])
                if s["ex"] is None:
                    s["ex"] = [fmt_val(o)[:70] for o in e.get("ops", [])] or fmt_val(e.get("val"))[:90] or [fmt_val(a)[:50] for a in e.get("args", [])[:2]]
for k, s in sites.items():
    print(k, s["n"], len(s["roots"]), s["ex"])
print(len(sites))
