#!/usr/bin/env python3
"""Regenerates /verif/MANIFEST.json from the table below; a property is claimed iff rules/<id>.py exists."""
import json, os
ROOT = os.path.dirname(os.path.dirname(os.path.abspath(__file__)))

TB = "rustc nightly MIR/-Zmir-opt-level=0 facts serialised by /verif/factdump; std/hashbrown/Option/Box/MaybeUninit models in rules/lib/absint.py; I_list assumed at function entry"
P = {
 "C01": ("other", "path-sensitive typestate/guard analysis on inlined MIR",
         "Decides the structural clauses C01.R1-R8 of DESIGN 4 (insert guarded by room on every path, admit guard with guaranteed removal in 2Q/ARC, one-partition dominance, observer agreement len/contains/peek/get/is_empty/purge, constructor capacity agreement, resize stores the requested bound, clones and builders keep every bound in its own field). Necessary conditions checked on every path of every function; the numeric sufficiency of the 2Q/ARC admit arithmetic over histories is NOT decided.",
         "4 C01"),
 "C02": ("other", "node typestate + value provenance on inlined MIR paths",
         "Decides re-key protocol, index-key = own key, exactly-one swap on hit, lookup agreement and remove-hands-back-once as per-path shape rules; 'latest value across histories' follows from these plus I_list and is not itself decided.", "4 C02"),
 "C03": ("other", "node typestate (linked/indexed/owned/init) over all inlined paths",
         "Per-function proof obligations for preserving the list/index invariant: detach only linked, attach only unlinked, free only unlinked+unindexed, sentinel loads guarded by non-emptiness, link stores only in link primitives, Drop completeness. Aliasing-model UB and the four pointer stores inside attach/detach are trusted, not decided.", "4 C03"),
 "C04": ("other", "node typestate exit obligations + payload move counting",
         "Every node taken out of a list is re-inserted, returned or re-boxed exactly once on every normal path; key/val of a re-boxed node each moved exactly once; no forget/leak APIs; purge/Drop reach every list. Allocator-level balance is a runtime observation and not decided.", "4 C04"),
 "C05": ("other", "panic-site ledger with discharge rules over MIR asserts/unwraps/index calls",
         "Every panic-capable operation reachable from the public API (unwrap/expect, overflow/div/bounds asserts, Index calls) in both feature configurations must be discharged by a rule of the catalogue D1-D12 or the justified residual table; every f64 input of a fallible constructor is accepted only under ordered comparisons with both bounds that evaluated true (NaN-rejecting), error variants carry the offending value, sibling-constructor agreement. Allocation failure, cost overflow and termination are assumptions.", "3.4, 4 C05"),
 "C06": ("other", "effect classes + provenance of LRU/MRU end + resize shape",
         "Use operations detach+attach the hit node, non-use operations reach no mutation (C13 engine); victim provenance is tail.prev, MRU is head.next; resize loop shape and counter. That repeated detach/attach realise move-to-front for every history is inferred, not checked.", "4 C06"),
 "C07": ("other", "routing conformance of event sequences per lookup class",
         "Per-operation routing table of SegmentedCache (hit-protected/hit-probationary/miss) as event sequences on list identities; demotion never frees; put_protected one-partition. History-level policy conformance not decided.", "4 C07"),
 "C08": ("other", "routing conformance + victim predicates on branch facts",
         "2Q routing classes, victim-selection predicates (> quota on ghost hit, >= on miss), fallback to the non-empty queue, ghosting of evicted entries, derived sizes floor(size*ratio). Long-run quota behaviour not decided.", "4 C08"),
 "C09": ("other", "all-writers invariant for p (sound) + routing/predicate shape",
         "0<=p<=size decided soundly by enumerating every write of p; delta shape, replace predicate, ghost-hit ordering, fallback. Conformance with ARC over histories not decided.", "4 C09"),
 "C10": ("other", "routing conformance + admission predicate provenance + access recording on all paths",
         "W-TinyLFU put routing, strict-lower rejection with operand order by provenance, exactly one estimator increment on every get/get_mut path, purge clears estimator. Estimator verdicts are numeric (C11) and not decided.", "4 C10"),
 "C11": ("other", "structural rules on TinyLFU/Bloom/sketch (all-writers of w, sibling agreement, estimate provenance)",
         "Doorkeeper-first ordering, reset schedule (all writers of w), estimate shape, comparison helpers derive from estimates on every path, add/contains index agreement, saturation guard. The numeric heart (never under-count, <=16, exactness) is NOT decided - static analysis in reach cannot bound sketch contents.", "4 C11"),
 "C12": ("other", "return-value provenance on inlined paths + exhaustiveness of PartialEq/Clone",
         "Hit => Update carrying the swapped v; every departed entry flows into the returned value unless provably Put/ghost/migrated; Evicted payload is the victim's; structural eq/clone exhaustive over the enum. 'exactly when' over histories not decided.", "4 C12"),
 "C13": ("proof", "sound effect analysis (no path from a read-only method to a mutation)",
         "Sound: 'never changes anything in any history' reduces to 'no path of the inlined MIR of a read-only method reaches a store/swap/free/re-index of receiver-reachable memory'. Obligations = read-only methods x feature configurations; all discharged by path enumeration. Assumes the mutating-API table is complete; unmodelled &mut external calls are reported undecided.", "4 C13"),
 "C14": ("other", "cursor/link table + countdown + constructor/projection agreement on MIR",
         "Each iterator method advances exactly one cursor through the matching link, decrements len once on Some paths, is guarded by len==0; constructors, projections, Clone and per-list accessor delegation agree; list and index agree at every callback site; use operations move the hit node to the head and links are stored only by the link primitives (order clause). Meet-in-the-middle as an execution follows given the list invariant (C03) and is not executed.", "4 C14"),
 "C15": ("other", "path counting of cb calls per departure + argument provenance + who-may-bypass",
         "Exactly one cb per departure path with the departing pair's key/value, none on update/read paths, callback runs only when the cache is consistent, on_evict has no writer but construct, bypassing helpers only on DefaultEvictCallback receivers.", "4 C15"),
 "C16": ("other", "field-wise clone agreement + order-preserving clone provenance",
         "Every Clone impl rebuilds each field from the same field; RawLRU::clone enumerates the recency list least-recent-first and re-inserts with put; no pointer of self flows into the clone; clone_from, where overridden, is `*self = source.clone()`. Equivalence under all futures follows from equal state + determinism (C17).", "4 C16"),
 "C17": ("other", "information-flow sources: order-exposing map iteration, address observation, hash values, ambient nondeterminism",
         "The only ways hasher/address dependent information can reach a result are enumerated and shown absent (allowed only in Drop / TinyLFU / sketch seeding); hash containers other than the node index are consumed in iteration order only when they are the caller's own argument; HashMap::capacity() of a node index is a sizing hint only.", "4 C17"),
 "C18": ("other", "node typestate evaluated at every user-code call site on every path (unwind-state obligation)",
         "At every call into user code (Hash/Eq/BuildHasher/Clone/Drop/callback, incl. through HashMap) on every inlined path, the abstract node state must be unwind-safe: indexed=>linked, freed/boxed=>unreachable, reachable=>initialised, no payload owned twice. Drop guards (crate types with Drop other than the caches) are executed on normal paths and along the unwinding path out of every user-code site whose cleanup chain drops one; a guard may free a node only while it is unlinked and unindexed. The walk is repeated in 'orphan mode' (the index may return another node for a node's own key, the state a leak-type unwind leaves behind): nothing frees a node that is still linked or indexed; no unchecked assumption replaces a safe panic. Panics inside std's map internals trusted.", "4 C18"),
 "C19": ("proof", "signature/impl-header rules on type-checked item facts + rustc compile-fail witnesses with compiling twins",
         "Type-level: rustc is the checker. Every region in a public return type is tied to the receiver, &mut out needs &mut self, iterator Send/Sync bounds derived from what the type hands out; witness programs (hold-across-mutation, outlive, double-mut, cross-thread) must be rejected with the expected error code while their twins compile.", "4 C19"),
 "C20": ("other", "all-writers delta pairing on SampledLFU (used vs key_costs) + value provenance",
         "Every mutation of key_costs is paired on the same path with the matching adjustment of used (insert uses the returned previous cost, remove subtracts the removed cost, clear zeroes, in-place update adds the difference), room_left shape, reports, fill_sample bounded push-only from the key_costs iterator without an item-dropping adapter, clear total on every path. i64 overflow is an assumption.", "4 C20"),
}

def main():
    checks, na = [], []
    for pid in sorted(P):
        cat, tech, text, ref = P[pid]
        if os.path.exists(os.path.join(ROOT, "rules", pid.lower() + ".py")):
            checks.append({
                "property_id": pid,
                "quick_cmd": "bin/check %s --tier quick" % pid,
                "thorough_cmd": "bin/check %s --tier thorough" % pid,
                "evidence_file": "/verif/evidence/%s.json" % pid,
                "replay_cmd_template": "bin/check --replay {path}",
                "engine": "factdump+rules",
                "level_claimed": {"category": cat, "text": text, "design_ref": "DESIGN.md section " + ref},
                "level_note": TB + ". The check decides the structural clauses named above, not the behaviour over histories; see DESIGN.md section 7.",
                "technique": "static analysis: " + tech,
            })
        else:
            na.append({"property_id": pid, "reason": "check not built yet in this revision of /verif (planned: %s); no verdict is claimed" % tech})
    m = {
        "version": 1,
        "setup_cmd": "bin/setup",
        "hooks": {
            "guard": "none (static analysis reads the source; no hook, feature or cfg was added to /repo)",
            "enable": "not applicable: checks run `cargo +nightly check` on /repo's working tree with the factdump driver as RUSTC_WORKSPACE_WRAPPER",
            "baseline_off_cmd": "cd /repo && cargo test --workspace --no-fail-fast --offline",
            "source_commits": [],
            "add_only": True,
        },
        "engines": [
            {"name": "factdump", "path": "/verif/factdump", "serves_properties": sorted(P), "kind_free_text": "rustc_private driver: serialises item facts + MIR of the local crate (std and no_std configurations); no rule logic"},
            {"name": "rules", "path": "/verif/rules", "serves_properties": sorted(P), "kind_free_text": "Python stdlib: path-sensitive abstract interpretation of the MIR facts (typestate, provenance, effects), all-writers and signature rules"},
            {"name": "witness", "path": "/verif/rules/c19.py", "serves_properties": ["C19"], "kind_free_text": "compile-fail witness programs + compiling twins generated from the signature facts by rules/c19.py, compiled against the crate's rmeta; verdict read from rustc JSON diagnostics"},
        ],
        "checks": checks,
        "not_applicable": na,
        "notes": "All checks are static: nothing under /repo is executed. exit 2 = analysis could not decide (fail closed). Genuine defects found on the pinned tree were repaired by 17 'fix:' commits in /repo (see known_findings.json and DESIGN.md section 5).",
    }
    if not na:
        del m["not_applicable"]
    with open(os.path.join(ROOT, "MANIFEST.json"), "w") as fh:
        json.dump(m, fh, indent=1)
    print("claimed:", [c["property_id"] for c in checks], "not_applicable:", [n["property_id"] for n in na])

if __name__ == "__main__":
    main()
