#!/usr/bin/env python3
import sys, os, time, collections
sys.path.insert(0, os.path.dirname(os.path.dirname(os.path.abspath(__file__))))
from rules.lib import facts, absint, api, nt, ctx
cfg = sys.argv[1] if len(sys.argv) > 1 else "std"
cx = ctx.Ctx()
F = cx.facts[cfg]
prims = nt.LinkPrims(F)
print("link prims:", prims.kind)
t0 = time.time(); tot = 0; agg = collections.Counter(); ex = {}
for f in api.roots(F):
    if len(sys.argv) > 2 and sys.argv[2] not in f["q"]: continue
    try:
        paths = cx.paths(cfg, f["path"])
    except Exception as e:
        print("ERR", f["q"], e); continue
    tot += len(paths)
    teardown = f["q"].endswith("core::ops::Drop>::drop")
    for p in paths:
        w = nt.NT(F, prims, p, f["q"], teardown).run()
        for fd in w.findings:
            k = (f["q"], fd["rule"], fd["msg"][:200], fd["ln"])
            agg[k] += 1
for k, c in sorted(agg.items()):
    print(c, k)
print("roots", len(api.roots(F)), "paths", tot, "%.1fs" % (time.time() - t0))
