import sys, os
sys.path.insert(0, os.path.dirname(os.path.dirname(os.path.abspath(__file__))))
from rules.lib import ctx, ntrun
from tools.trace import show_event
cx = ctx.Ctx(); F = cx.std
f = F.find(sys.argv[1])
k = 0
for f_, p, w in ntrun.walk(cx, "std", only=lambda g: g["path"] == f["path"]):
    bad = [ev for ev in w.events_on if ev[1] == "index" and ((ev[5] is not None and ev[5] < 1) or ev[4] is not True)]
    if bad:
        k += 1
        if k > int(sys.argv[2]) if len(sys.argv) > 2 else 1: break
        print("=== path, bad index events:", [(b[0], b[4], b[5]) for b in bad])
        for i, e in enumerate(p.events):
            if e["ev"] in ("call", "enter", "exit", "branch") and e.get("depth", 0) <= 3: print(i, show_event(e)[:220])
