#!/usr/bin/env python3-vt
import json, sys, glob, jsonschema
m = json.load(open('/verif/MANIFEST.json'))
jsonschema.validate(m, json.load(open('/root/.vp/MANIFEST.schema.json')))
es = json.load(open('/root/.vp/EVIDENCE.schema.json'))
bad = 0
for c in m['checks']:
    try:
        e = json.load(open(c['evidence_file']))
        jsonschema.validate(e, es)
        assert e['level'] == c['level_claimed']['category'], (e['level'], c['level_claimed']['category'])
    except Exception as ex:
        bad += 1; print('EVIDENCE BAD', c['property_id'], str(ex)[:200])
print('manifest ok; evidence files ok' if not bad else 'problems: %d' % bad)
