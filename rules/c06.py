"""C06 - RawLRU keeps exact recency order; eviction and resize take the true LRU."""
from .lib import api, ntrun, composite
from .lib.routing import View, cond_facts, norm_cmp, outer_enters, SELF
from .lib.absint import fmt_val, subterms
from .lib.effects import mutation_events
from .lib.nt import end_load
from .lib.facts import AnalysisError

LEVEL = "other"
EXPLANATION = (
    "R1 use/non-use: on every hit path of the use operations (put, get, get_mut, get_lru, get_lru_mut and the put branch of the *_or_put "
    "helpers) the found node is detached and then attached (moved to the most-recent end); the non-use operations (peek*, contains, iterators, "
    "len/cap/is_empty, get_mru*, the hit branch of peek_or_put/peek_mut_or_put/contains_or_put, Debug) reach no link or index mutation "
    "(effect analysis shared with C13). R2 which end: the node handed out by peek_lru*/get_lru*, removed by remove_lru and chosen as victim by "
    "every eviction in the crate derives from (*tail).prev; peek_mru*/get_mru* from (*head).next; attach links next to head only. R3 resize: "
    "the only early return is guarded by cap == self.cap; the loop runs while map.len() > cap, calls remove_lru once per iteration and counts "
    "it; self.cap := cap on every other path, after the last eviction (an unwinding hook leaves the old bound in force); the count is returned. R4: a put of a resident key never evicts. That repeated detach/attach "
    "realise the move-to-front permutation for every history needs the semantics of the four pointer stores and is inferred, not checked."
)
TRUSTED_BASE = ["as C03", "attach inserts next to head (checked structurally: it never mentions tail)"]

RAW = api.CACHES["RawLRU"]
L0 = ()


def run(cx, chk):
    chk.rule("C06.R1", "use operations move the hit node to the front (detach then attach); non-use operations reach no mutation")
    chk.rule("C06.R2", "which end: LRU-side operations and every eviction victim use (*tail).prev, MRU-side operations (*head).next")
    chk.rule("C06.R3", "resize shape: early return iff cap == self.cap; loop `len > cap` -> remove_lru + count; self.cap := cap; count returned")
    chk.rule("C06.R4", "put of a resident key never evicts")
    chk.rule("C06.R5", "a clone has the recency order of the original: RawLRU::clone walks the source least-recent-first and re-inserts with put (engine of C16.R2)")
    chk.rule("C06.R6", "the order survives a panicking eviction callback: at every callback site of RawLRU each node is linked iff indexed (a node left linked but unindexed sits at the LRU end for ever and is taken for the victim)")
    from . import c16
    from .lib.report import Relabel
    for cfg, F in cx.cfgs():
        chk.floor("C06.R6", "callback site visits in %s" % cfg, ntrun.callback_consistency(cx, chk, cfg, "C06.R6", only=lambda g: (F.impl_of(g) or {}).get("self_head") == RAW,
                  why="if it unwinds, peek_lru / remove_lru / the next eviction see a node the index does not know"), 6)
        fcl = [F.fns[i] for im in F.doc["impls"] if (im["trait"] or "").endswith("clone::Clone") and im["self_head"] == RAW for i in im["items"] if i in F.fns and F.fns[i]["name"] == "clone"]
        if len(fcl) != 1:
            raise AnalysisError("C06.R5: RawLRU::clone not found in %s" % cfg)
        c16.rawlru_clone(cx, Relabel(chk, {"C16.R2": "C06.R5"}, keep=lambda key: any(x in key for x in ("|order", "|no-list-walk", "|put-target", "clone")) and "|cap" not in key and "|hasher" not in key and "|on_evict" not in key), cfg, F, fcl[0])
        use_ops(cx, chk, cfg, F)
        nonuse(cx, chk, cfg, F)
        ends(cx, chk, cfg, F)
        victims(cx, chk, cfg, F)
        resize(cx, chk, cfg, F)


def meth(F, name, trait=None):
    return composite.cache_method(F, RAW, name, trait)


def use_ops(cx, chk, cfg, F):
    for name, trait in (("put", api.CACHE_TRAIT), ("get", api.CACHE_TRAIT), ("get_mut", api.CACHE_TRAIT), ("get_lru", None), ("get_lru_mut", None)):
        f = meth(F, name, trait)
        hits = 0
        ok = True
        for f_, p, w in ntrun.walk(cx, cfg, only=lambda g: g["path"] == f["path"]):
            v = View(p, w)
            if name in ("get_lru", "get_lru_mut"):
                rv = p.ret
                if not (isinstance(rv, tuple) and rv[0] == "agg" and rv[2][1] == "Some"):
                    continue
                nodes = set(t[1][1] for t in subterms(rv) if t[0] == "ref" and t[1][0] == "H" and t[1][2] in (("key",), ("val",)))
                n = next(iter(nodes)) if len(nodes) == 1 else None
            else:
                n = v.key_hits.get(L0)
            if n is None:
                continue
            hits += 1
            if not v.refreshed(n, L0):
                ok = False
                chk.violation("C06.R1", "%s|no-move-to-front" % f["q"], "%s finds an entry but does not move it to the most-recent end (detach then attach of the found node)" % f["q"],
                              f["span"]["file"], f["span"]["lo"], f["q"], None, cfg)
            if name == "put" and v.of("unindex", "rebox", "recycle-key"):
                ok = False
                chk.violation("C06.R4", "%s|evicts-on-update" % f["q"], "a put of a resident key evicts an entry", f["span"]["file"], f["span"]["lo"], f["q"], None, cfg)
        if hits < 1:
            raise AnalysisError("C06: no hit path in %s (%s)" % (f["q"], cfg))
        if ok:
            chk.ob("C06.R1", "%s:%s" % (cfg, f["q"]), "moves the hit node to the front on %d hit paths" % hits)


def nonuse(cx, chk, cfg, F):
    n = 0
    iters = api.iterator_heads(F)
    for f, im, why in api.readonly_methods(F):
        head = im["self_head"].lstrip("&").replace("mut ", "")
        if head != RAW and head not in iters:
            continue
        n += 1
        bad = [m for p in cx.paths(cfg, f["path"]) for m in mutation_events(p, head in iters)]
        if bad:
            chk.violation("C06.R1", "%s|nonuse-mutates|%s" % (f["q"], bad[0]["what"]), "%s (a non-use operation) changes the cache: %s" % (f["q"], bad[0]["text"]),
                          f["span"]["file"], bad[0].get("ln") or f["span"]["lo"], f["q"], None, cfg)
        else:
            chk.ob("C06.R1", "%s:%s|nonuse" % (cfg, f["q"]), "no mutation")
    from .c13 import is_hit_path
    for f, im in api.branch_scoped_methods(F):
        hit = [p for p in cx.paths(cfg, f["path"]) if is_hit_path(p)]
        bad = [m for p in hit for m in mutation_events(p, False)]
        if not hit:
            raise AnalysisError("C06.R1: no path of %s returns (.., None): its hit branch was not recognised (%s)" % (f["q"], cfg))
        if bad:
            chk.violation("C06.R1", "%s|hit-branch-mutates" % f["q"], "the hit branch of %s changes the cache: %s" % (f["q"], bad[0]["text"]),
                          f["span"]["file"], bad[0].get("ln") or f["span"]["lo"], f["q"], None, cfg)
        else:
            chk.ob("C06.R1", "%s:%s|hit-branch" % (cfg, f["q"]), "no mutation on %d hit paths" % len(hit))
    chk.floor("C06.R1", "non-use operations in %s" % cfg, n, 60)


def ends(cx, chk, cfg, F):
    table = {"peek_lru": ("tail", "prev"), "peek_lru_mut": ("tail", "prev"), "get_lru": ("tail", "prev"), "get_lru_mut": ("tail", "prev"),
             "peek_mru": ("head", "next"), "peek_mru_mut": ("head", "next"), "get_mru": ("head", "next"), "get_mru_mut": ("head", "next")}
    for name, (sent, link) in table.items():
        f = meth(F, name)
        some = 0
        for p in cx.paths(cfg, f["path"]):
            rv = p.ret
            if not (isinstance(rv, tuple) and rv[0] == "agg" and rv[2][1] == "Some"):
                continue
            some += 1
            refs = [t for t in subterms(rv) if t[0] == "ref" and t[1][0] == "H" and t[1][2] in (("key",), ("val",))]
            srcs = set()
            for t in refs:
                el = end_load(t[1][1])
                srcs.add((el[2], el[1]) if el else None)
            if srcs == {(sent, link)} and len(refs) == 2:
                chk.ob("C06.R2", "%s:%s" % (cfg, name), "returns key/val of (*%s).%s" % (sent, link))
            else:
                chk.violation("C06.R2", "%s|end" % name, "%s returns %s; it must hand out the key and value of (*%s).%s" % (name, sorted(str(s) for s in srcs), sent, link),
                              f["span"]["file"], f["span"]["lo"], f["q"], None, cfg)
        if some < 1:
            raise AnalysisError("C06: no Some path in %s" % f["q"])


def victims(cx, chk, cfg, F):
    """every node taken out of an index by its own key (an eviction victim / remove_lru) is the list's (*tail).prev"""
    n = 0
    seen = set()
    for f, p, w in ntrun.walk(cx, cfg):
        for ev in w.events_on:
            if ev[1] != "unindex":
                continue
            e = p.events[ev[0]]
            ks = e.get("keysrc")
            if not (isinstance(ks, tuple) and ks[0] == "ref" and ks[1][0] == "H" and ks[1][2][:1] == ("key",)):
                continue   # looked up with a caller-supplied key
            n += 1
            el = end_load(ev[3])
            g = F.fns.get(e.get("fn")) or f
            key = g["q"]
            if el is None and ev[2][0] in ("L", "T"):
                # a list built on this path (from_iter / clone filling a new cache): its chain is known exactly, (*tail).prev has been
                # resolved to a concrete node. Replay attach / detach on that list: the victim must be the node at the tail end.
                order = []
                for ev2 in w.events_on:
                    if ev2[0] >= ev[0]:
                        break
                    if ev2[2] == ev[2] and ev2[1] == "attach":
                        order.insert(0, ev2[3])
                    elif ev2[2] == ev[2] and ev2[1] == "detach" and ev2[3] in order:
                        order.remove(ev2[3])
                if order and order[-1] == ev[3]:
                    if key not in seen:
                        seen.add(key)
                        chk.ob("C06.R2", "%s:%s|victim" % (cfg, key), "victim = (*tail).prev")
                    continue
            if el is None or (el[2], el[1]) != ("tail", "prev") or el[0] != ev[2]:
                chk.violation("C06.R2", "%s|victim" % key, "%s evicts %s, which is not the least-recent entry (*tail).prev of that list" % (g["q"], fmt_val(ev[3])[:60]),
                              g["span"]["file"], e.get("ln"), g["q"], ["root " + f["q"]], cfg)
            elif key not in seen:
                seen.add(key)
                chk.ob("C06.R2", "%s:%s|victim" % (cfg, key), "victim = (*tail).prev")
    chk.floor("C06.R2", "eviction events in %s" % cfg, n, 50)


def count_by_length(ret, k, w):
    """the count returned as `len before - len after`: the map's length at entry minus its length k modifications later, all of them
    removals (k entries left the cache, none was added)"""
    r = ret[3] if isinstance(ret, tuple) and ret[0] == "cast" else ret
    if not (isinstance(r, tuple) and r[0] == "bin" and r[1] == "Sub"):
        return False
    a, b = r[2], r[3]
    ML = ("H", SELF, ("map",))
    if not (isinstance(a, tuple) and isinstance(b, tuple) and a[0] == "len" and b[0] == "len" and a[1] == ML and b[1] == ML):
        return False
    if any(ev[1] == "index" for ev in w.events_on):
        return False
    return a[2] == 0 and b[2] == k and len([ev for ev in w.events_on if ev[1] == "unindex"]) == k


def resize(cx, chk, cfg, F):
    f = composite.cache_method(F, RAW, "resize", "cache_api::ResizableCache")
    CAP = ("load", ("H", SELF, ("cap",)), 0)
    ARG = ("param", 2, False)
    ok = True
    kinds = set()

    def bad(what, msg, ln=None):
        nonlocal ok
        ok = False
        chk.violation("C06.R3", "resize|" + what, "resize: " + msg, f["span"]["file"], ln or f["span"]["lo"], f["q"], None, cfg)
    for f_, p, w in ntrun.walk(cx, cfg, only=lambda g: g["path"] == f["path"]):
        facts = cond_facts(p)      # at any depth: the loop may sit in a helper; only comparisons with the new capacity are looked at
        same = None
        for c, t, e in facts:
            if isinstance(c, tuple) and c[0] == "bin" and c[1] in ("Eq", "Ne") and {c[2], c[3]} == {ARG, CAP}:
                same = (c[1] == "Eq") == t
        stores = [e for e in p.events if e["ev"] == "store" and e["loc"] == ("H", SELF, ("cap",))]
        deps = [d for d in w.departures]
        removes = outer_enters(p, lambda e: e["q"].split("::")[-1].startswith("remove_lru"))
        if same is None:
            bad("no-same-cap-test", "a path does not compare the new capacity with self.cap")
            continue
        if same:
            kinds.add("early")
            if stores or removes or deps or p.ret != ("const", "u64", "0"):
                bad("early-return-effects", "the cap == self.cap path is not a pure `return 0`")
            continue
        loops = []
        for c, t, e in facts:
            r = norm_cmp(c, t, lambda x: isinstance(x, tuple) and x[0] == "len" and x[1] == ("H", SELF, ("map",)))
            if r and r[2] == ARG:
                loops.append(r[0])
        k = len(deps)
        kinds.add("iter%d" % k)
        if loops != ["Gt"] * k + ["Le"]:
            bad("loop-condition", "the eviction loop is not `while map.len() > cap` (condition facts on a path with %d evictions: %s)" % (k, loops), removes[0].get("ln") if removes else None)
        if len(stores) != 1 or stores[0]["val"] != ARG:
            bad("cap-store", "self.cap is not set to the new capacity exactly once (%s)" % [fmt_val(s["val"]) for s in stores])
        if len(stores) == 1 and deps and p.events.index(stores[0]) < max(d[0] for d in deps):
            bad("cap-store-early", "self.cap is lowered before the entries above it have been evicted: a hook or destructor that unwinds out of the loop leaves len() > cap()", stores[0].get("ln"))
        if p.ret != ("const", "u64", str(k)) and not count_by_length(p.ret, k, w):
            bad("count", "a path with %d evictions returns %s" % (k, fmt_val(p.ret)))
        for d in deps:
            el = end_load(d[1])
            if el is None or (el[2], el[1]) != ("tail", "prev"):
                bad("victim", "resize discards an entry that is not the least-recent one")
    if ok and not {"early", "iter0", "iter1"} <= kinds:
        raise AnalysisError("C06: resize paths incomplete: %s" % sorted(kinds))
    if ok:
        chk.ob("C06.R3", cfg + ":resize", "early return iff cap == self.cap; while len > cap { remove_lru; count += 1 }; self.cap = cap; returns the count", {"path_kinds": sorted(kinds)})
