"""C11 - TinyLFU estimates: structural clauses only (the numeric heart is not decidable by static analysis in reach)."""
import re

from .lib import api, absint, lin
from .lib.routing import cond_facts, outer_enters, truth_of, SELF
from .lib.absint import fmt_val, fmt_loc, subterms
from .lib.facts import AnalysisError

LEVEL = "other"
EXPLANATION = (
    "Structural clauses, each a necessary condition of the stated behaviour, decided on every path of the MIR (both configurations; the "
    "sketch and the doorkeeper are kept opaque at the TinyLFU level and analysed separately). R1 doorkeeper first: on every path of "
    "increment / increment_hashed_key exactly one of Bloom::add and CountMinSketch::increment runs, with the same hash - the sketch exactly "
    "when the doorkeeper already contained the key - followed by exactly one try_reset; increment_keys / increment_hashed_keys delegate per "
    "key. R2 reset schedule (all-writers of w): w is written only as w + 1 (try_reset), and as 0 together with doorkeeper.clear() and "
    "ctr.reset() (reset) or ctr.clear() (clear); try_reset resets iff w + 1 >= samples; every path of reset and of clear zeroes w; samples is validated >= 1. R3 estimate shape: "
    "estimate(_hashed_key) = ctr.estimate(h) + [doorkeeper.contains(h)] with the same h. R4 comparison consistency: lt/le/gt/ge/eq return "
    "OP(E(a), E(b)) where on every path E(x) is exactly that estimate expression of x and OP matches the name. R5 no false negatives, "
    "structurally: Bloom::add and Bloom::contains probe the same index expression; contains_or_add adds exactly when contains is false. R6 the "
    "nibble increment is guarded by v < 15 on the same nibble; reset halves every byte with (b >> 1) & 0x77. NOT decided: never under-count, "
    "the bound 16, exactness for a single key, the aged-count semantics - they quantify over numeric sketch contents and seeds."
)
TRUSTED_BASE = ["MIR facts", "Vec/slice indexing semantics"]

T = "lfu::tinylfu::TinyLFU"
BLOOM = "lfu::tinylfu::bloom::Bloom"


class Shallow(absint.DefaultPolicy):
    """TinyLFU level: the sketch, the doorkeeper and the key hasher stay opaque"""
    def inline(self, interp, fr, info):
        q = info["q"] or ""
        return not ("CountMinSketch::" in q or "::Bloom::" in q or q.endswith("hash_key") and "KeyHasher" in q)


def tpaths(cx, cfg, f):
    return cx.paths(cfg, f["path"], policy=Shallow(), tag="shallow")


def calls(p, suffix):
    return [e for e in p.events if e["ev"] == "call" and (e["q"] or "").endswith(suffix)]


def field_ref(a, fld):
    return isinstance(a, tuple) and a[0] == "ref" and a[1] == ("H", SELF, (fld,))


def run(cx, chk):
    for rid, txt in (("C11.R1", "doorkeeper first, sketch only when already present, same hash, one try_reset"),
                     ("C11.R2", "all-writers of w; try_reset resets iff w+1 >= samples; reset/clear touch w, doorkeeper and sketch"),
                     ("C11.R3", "estimate = ctr.estimate(h) + [doorkeeper.contains(h)]"),
                     ("C11.R4", "lt/le/gt/ge/eq = OP(estimate expression of a, estimate expression of b) on every path"),
                     ("C11.R5", "Bloom::add and Bloom::contains probe the same indices; contains_or_add adds iff absent"),
                     ("C11.R6", "nibble increment guarded by v < 15; reset maps every byte through (b >> 1) & 0x77"),
                     ("C11.R8", "Bloom::clear, CountMinRow::clear and CountMinRow::reset wipe their whole vector (no index, range or split between the field and the fill / loop)"),
                     ("C11.R7", "the doorkeeper has at least one hash location for every accepted configuration (sign analysis of the sizing formulas)")):
        chk.rule(rid, txt)
    for cfg, F in cx.cfgs():
        r1(cx, chk, cfg, F)
        r2(cx, chk, cfg, F)
        r3r4(cx, chk, cfg, F)
        r5(cx, chk, cfg, F)
        r6(cx, chk, cfg, F)
        r7(cx, chk, cfg, F)
        r8(cx, chk, cfg, F)


def r1(cx, chk, cfg, F):
    for name, key_is_hash in (("increment", False), ("increment_hashed_key", True)):
        f = F.find(T + "::" + name)
        ok = True
        n = 0
        for p in tpaths(cx, cfg, f):
            n += 1
            coa = calls(p, "Bloom::contains_or_add")
            inc = calls(p, "CountMinSketch::increment")
            tr = outer_enters(p, lambda e: e["q"].endswith("TinyLFU::try_reset"))

            def bad(what, msg):
                nonlocal ok
                ok = False
                chk.violation("C11.R1", "%s|%s" % (name, what), "%s: %s" % (f["q"], msg), f["span"]["file"], f["span"]["lo"], f["q"], None, cfg)
            if len(coa) != 1 or not field_ref(coa[0]["args"][0], "doorkeeper"):
                bad("doorkeeper", "the doorkeeper is consulted %d times (must be exactly once, with contains_or_add)" % len(coa))
                continue
            h = coa[0]["args"][1]
            if key_is_hash and h != ("param", 2, False):
                bad("hash", "the doorkeeper is given %s instead of the caller's hash" % fmt_val(h))
            if not key_is_hash:
                hk = [e for e in p.events if e["ev"] == "call" and e.get("id") == (h[1] if isinstance(h, tuple) and h[0] == "call" else None)]
                if not hk or not hk[0]["q"].endswith("hash_key") or hk[0]["args"][1] != ("param", 2, False):
                    bad("hash", "the doorkeeper is given %s, not hash_key(key)" % fmt_val(h))
            r = ("call", coa[0]["id"], coa[0]["q"])
            added = None
            for c, t, e in cond_facts(p):
                if c == r:
                    added = t
            if added is None:
                bad("unused", "the result of contains_or_add does not decide whether the sketch is incremented")
                continue
            if added and inc:
                bad("sketch-on-first", "the sketch is incremented although the doorkeeper bit was just set (first access in the window)")
            if not added and (len(inc) != 1 or inc[0]["args"][1] != h or not field_ref(inc[0]["args"][0], "ctr")):
                bad("sketch-missing", "the key was already in the doorkeeper but the sketch is not incremented exactly once with the same hash")
            if len(tr) != 1:
                bad("try_reset", "%d try_reset calls on a path (must be exactly one)" % len(tr))
        if ok:
            chk.ob("C11.R1", "%s:%s" % (cfg, name), "doorkeeper-first protocol on %d paths" % n)
    for name, single in (("increment_keys", "increment"), ("increment_hashed_keys", "increment_hashed_key")):
        f = F.find(T + "::" + name)
        good = False
        direct = False
        for p in tpaths(cx, cfg, f):
            loops = [e for e in p.events if e["ev"] == "loop"]
            ent = [e for e in p.events if e["ev"] == "enter" and e["q"] == T + "::" + single]
            if ent:
                good = True
            if [e for e in p.events if e["ev"] == "store" and e["loc"][0] == "H" and e["loc"][1] == SELF and e["fn"] == f["path"]] or \
               [e for e in p.events if e["ev"] == "call" and e["fn"].startswith(f["path"]) and ("Bloom::" in (e["q"] or "") or "CountMinSketch::" in (e["q"] or ""))]:
                direct = True
        if good and not direct:
            chk.ob("C11.R1", "%s:%s" % (cfg, name), "delegates to %s per key" % single)
        else:
            chk.violation("C11.R1", "%s|delegation" % name, "%s does not simply record each key through %s (it touches the estimator state itself): the per-access reset schedule is bypassed" % (name, single),
                          f["span"]["file"], f["span"]["lo"], f["q"], None, cfg)


def r2(cx, chk, cfg, F):
    W0 = ("load", ("H", SELF, ("w",)), 0)
    owners = {}
    for b in F.doc["bodies"]:
        for blk in b["blocks"]:
            for s in blk["s"]:
                if s["k"] == "assign":
                    pr = [e for e in s["p"]["p"] if isinstance(e, dict) and "f" in e]
                    if pr and pr[-1]["of"] == T and pr[-1]["n"] in ("w", "samples") and "deref" in s["p"]["p"]:
                        fn = F.fns[b["path"]]
                        while fn.get("kind") == "Closure":
                            fn = F.fns[fn["parent"]]
                        owners.setdefault(fn["path"], []).append((pr[-1]["n"], s["ln"]))
    kinds = {}
    for path, sites in owners.items():
        fn = F.fns[path]
        if any(n == "samples" for n, ln in sites):
            chk.violation("C11.R2", "samples-store|" + fn["q"], "samples is written after construction", fn["span"]["file"], sites[0][1], fn["q"], None, cfg)
    # the functions judged: every TinyLFU method that writes w itself or through TinyLFU helpers, except module-private helpers that are
    # reached from another judged method (their stores are judged on the paths of their callers, into which they are inlined)
    callers = {}
    for b in F.doc["bodies"]:
        fn = F.fns[b["path"]]
        while fn.get("kind") == "Closure":
            fn = F.fns[fn["parent"]]
        for blk in b["blocks"]:
            t = blk["t"]
            if t["k"] == "call" and "def" in t["f"]:
                r = t["f"].get("resolved")
                callers.setdefault(r["def"] if r else t["f"]["def"], set()).add(fn["path"])
    S = set(owners)
    work = list(owners)
    while work:
        x = work.pop()
        for c in callers.get(x, ()):
            im = F.impl_of(F.fns[c])
            if c not in S and im and im["self_head"] == T:
                S.add(c)
                work.append(c)

    def private(fn):
        return not fn.get("exported") and "::lfu::tinylfu)" in str(fn.get("vis"))
    judged = [x for x in sorted(S) if not (private(F.fns[x]) and any(c in S for c in callers.get(x, ())))]
    for path in judged:
        fn = F.fns[path]
        for p in cx.paths(cfg, path, policy=Shallow(), tag="shallow"):
            facts = cond_facts(p)
            st = [(i, e) for i, e in enumerate(p.events) if e["ev"] == "store" and e["loc"] == ("H", SELF, ("w",))]
            if not st:
                continue
            cur = W0
            zeroed = False
            for k, (i, e) in enumerate(st):
                v = e["val"]
                nxt = st[k + 1][0] if k + 1 < len(st) else len(p.events)
                prv = st[k - 1][0] if k else 0
                folded = ("const", "usize", str(int(cur[2]) + 1)) if isinstance(cur, tuple) and cur[0] == "const" and str(cur[2]).isdigit() else None
                if (v == ("bin", "Add", cur, ("const", "usize", "1")) and cur != ("const", "usize", "0")) or (folded is not None and v == folded and k > 0):
                    kinds.setdefault(path, set()).add("inc")
                    # reset iff w + 1 >= samples
                    t = truth_of(facts, "Ge", v, ("load", ("H", SELF, ("samples",)), 0))
                    # the reset that belongs to THIS increment: a zero store before the next increment (a path may run the loop of a
                    # batch method more than once)
                    later_zero = k + 1 < len(st) and st[k + 1][1]["val"] == ("const", "usize", "0")
                    if t is None or later_zero != t:
                        chk.violation("C11.R2", "try_reset|schedule|" + fn["q"], "%s increments w but does not reset exactly when w + 1 >= samples" % fn["q"], fn["span"]["file"], e.get("ln"), fn["q"], None, cfg)
                elif v == ("const", "usize", "0") and not (folded is not None and v == folded):
                    seg = p.events[prv:nxt]
                    dk = [x for x in seg if x["ev"] == "call" and (x["q"] or "").endswith("Bloom::clear") and field_ref(x["args"][0], "doorkeeper")]
                    cr = [x for x in seg if x["ev"] == "call" and (x["q"] or "").split("::")[-1] in ("reset", "clear") and "CountMinSketch" in (x["q"] or "")]
                    if len(dk) == 1 and len(cr) == 1:
                        kinds.setdefault(path, set()).add("zero+" + cr[0]["q"].split("::")[-1])
                    else:
                        chk.violation("C11.R2", "zero|partial|" + fn["q"], "%s sets w = 0 without clearing the doorkeeper and ageing/clearing the sketch (doorkeeper.clear x%d, sketch reset/clear x%d)" % (fn["q"], len(dk), len(cr)),
                                      fn["span"]["file"], e.get("ln"), fn["q"], None, cfg)
                else:
                    chk.violation("C11.R2", "w-store|" + fn["q"], "%s assigns w := %s; w may only be incremented by one (try_reset) or zeroed together with the doorkeeper and the sketch" % (fn["q"], fmt_val(v)),
                                  fn["span"]["file"], e.get("ln"), fn["q"], None, cfg)
                cur = v
    # an explicit try_reset call counts towards the sample window (the property's wording): every path of try_reset increments w first
    ftr = F.find(T + "::try_reset")
    for p in cx.paths(cfg, ftr["path"], policy=Shallow(), tag="shallow"):
        st = [e for e in p.events if e["ev"] == "store" and e["loc"] == ("H", SELF, ("w",))]
        if not st or st[0]["val"] != ("bin", "Add", W0, ("const", "usize", "1")):
            chk.violation("C11.R2", "try_reset|no-count", "a path of TinyLFU::try_reset does not count the call (w := w + 1 is not its first write of w): explicit try_reset calls no longer advance the sample window",
                          ftr["span"]["file"], ftr["span"]["lo"], ftr["q"], None, cfg)
            break
    else:
        chk.ob("C11.R2", cfg + ":try_reset-counts", "every path of try_reset starts by w := w + 1")
    # the explicit wipes are unconditional: every path of reset / clear zeroes w (the zero store itself is judged above: it comes with the
    # doorkeeper and the sketch). A `w == 0` shortcut is not a no-op: w is also 0 right after an automatic reset, with a non-empty sketch.
    for nm in ("reset", "clear"):
        fw = F.find(T + "::" + nm)
        n = 0
        for p in cx.paths(cfg, fw["path"], policy=Shallow(), tag="shallow"):
            n += 1
            if not any(e["ev"] == "store" and e["loc"] == ("H", SELF, ("w",)) and e["val"] == ("const", "usize", "0") for e in p.events):
                chk.violation("C11.R2", "%s|not-total" % nm, "a path of TinyLFU::%s returns without zeroing w (and with it the doorkeeper and the sketch)" % nm,
                              fw["span"]["file"], fw["span"]["lo"], fw["q"], None, cfg)
                break
        else:
            if not n:
                raise AnalysisError("C11: no path through TinyLFU::%s" % nm)
            chk.ob("C11.R2", "%s:%s-total" % (cfg, nm), "every path of %s zeroes w" % nm, {"paths": n})
    have = set(k for ks in kinds.values() for k in ks)
    for need in ("inc", "zero+reset", "zero+clear"):
        if need in have:
            chk.ob("C11.R2", "%s:%s" % (cfg, need), "writer present and well-formed")
        else:
            chk.violation("C11.R2", "missing|" + need, "no well-formed writer of w of kind %s (try_reset / reset / clear)" % need, "src/lfu/tinylfu.rs", None, T, None, cfg)
    # samples >= 1 validated
    f = F.find("lfu::tinylfu::TinyLFUBuilder::finalize")
    okv = False
    for p in cx.paths(cfg, f["path"], policy=Shallow(), tag="shallow"):
        if isinstance(p.ret, tuple) and p.ret[0] == "agg" and p.ret[2][1] == "Ok":
            okv = any(isinstance(c, tuple) and c[0] == "bin" and c[1] == "Eq" and ("const", "usize", "0") in (c[2], c[3]) and t is False and "samples" in fmt_val(c) for c, t, e in cond_facts(p))
            if not okv:
                chk.violation("C11.R2", "samples-unvalidated", "TinyLFUBuilder::finalize succeeds without rejecting samples == 0", f["span"]["file"], f["span"]["lo"], f["q"], None, cfg)
    if okv:
        chk.ob("C11.R2", cfg + ":samples>=1", "finalize rejects samples == 0")


def est_expr(p, v, key, hashed):
    """is value v the estimate expression of `key` on path p?  ctr.estimate(h) [+ 1 iff doorkeeper.contains(h) is true on the path]"""
    d = lin.norm(lin.lin(v))
    ests = [k for k in d if isinstance(k, tuple) and k[0] == "call" and k[2].endswith("CountMinSketch::estimate")]
    if len(ests) != 1 or d[ests[0]] != 1:
        return "no single ctr.estimate term in %s" % fmt_val(v)[:60]
    ee = [e for e in p.events if e["ev"] == "call" and e.get("id") == ests[0][1]][0]
    h = ee["args"][1]
    if not field_ref(ee["args"][0], "ctr"):
        return "estimate not taken from self.ctr"
    if hashed:
        if h != key:
            return "the sketch is asked about %s, not the given hash" % fmt_val(h)
    else:
        hk = [e for e in p.events if e["ev"] == "call" and isinstance(h, tuple) and h[0] == "call" and e.get("id") == h[1]]
        if not hk or not hk[0]["q"].endswith("hash_key") or hk[0]["args"][1] != key:
            return "the sketch is asked about %s, not hash_key of the key" % fmt_val(h)
    dk = [e for e in calls(p, "Bloom::contains") if e["args"][1] == h and field_ref(e["args"][0], "doorkeeper")]
    if not dk:
        return "the doorkeeper is not consulted for the same hash"
    r = ("call", dk[0]["id"], dk[0]["q"])
    present = [t for c, t, e in cond_facts(p) if c == r]
    rest = {k: c for k, c in d.items() if k != ests[0]}
    if not present:
        # branch-free form: ctr.estimate(h) + (contains(h) as u64) / u64::from(contains(h))
        def as_flag(k):
            if k == r:
                return True
            if isinstance(k, tuple) and k[0] == "call" and (k[2] or "").split("::")[-1] in ("from", "into"):
                ce = [e for e in p.events if e["ev"] == "call" and e.get("id") == k[1]]
                return bool(ce) and len(ce[0]["args"]) == 1 and ce[0]["args"][0] == r
            return False
        if len(rest) == 1 and list(rest.values()) == [1] and as_flag(list(rest)[0]):
            return None
        return "doorkeeper.contains does not influence the result"
    want = {"const": 1} if present[-1] else {}
    if rest != want:
        return "expected ctr.estimate(h)%s, found %s" % (" + 1" if present[-1] else "", fmt_val(v)[:60])
    return None


def r3r4(cx, chk, cfg, F):
    for name, hashed in (("estimate", False), ("estimate_hashed_key", True)):
        f = F.find(T + "::" + name)
        errs = set()
        n = 0
        for p in tpaths(cx, cfg, f):
            n += 1
            e = est_expr(p, p.ret, ("param", 2, False), hashed)
            if e:
                errs.add(e)
        if errs:
            chk.violation("C11.R3", name, "%s: %s" % (f["q"], sorted(errs)[0]), f["span"]["file"], f["span"]["lo"], f["q"], None, cfg)
        else:
            chk.ob("C11.R3", "%s:%s" % (cfg, name), "ctr.estimate(h) + [doorkeeper.contains(h)] on %d paths" % n)
    ops = {"lt": "Lt", "le": "Le", "gt": "Gt", "ge": "Ge", "eq": "Eq"}
    for name, op in ops.items():
        f = F.find(T + "::" + name)
        errs = set()
        n = 0
        for p in tpaths(cx, cfg, f):
            n += 1
            rv = p.ret
            if isinstance(rv, tuple) and rv[0] == "const" and rv[1] == "bool":
                # the three-way form (`estimate(a).cmp(&estimate(b))` tested against an Ordering): the verdict is a constant on each path,
                # and the path's comparisons of the two estimates must decide `op` that way
                facts = cond_facts(p)
                pairs = set()
                for c, t, e in facts:
                    if isinstance(c, tuple) and c[0] == "bin" and c[1] in ("Lt", "Le", "Gt", "Ge", "Eq", "Ne"):
                        for x, y in ((c[2], c[3]), (c[3], c[2])):
                            if est_expr(p, x, ("param", 2, False), False) is None and est_expr(p, y, ("param", 3, False), False) is None:
                                pairs.add((x, y))
                tv = [truth_of(facts, op, x, y) for x, y in pairs]
                if len(pairs) == 1 and tv[0] is not None:
                    if tv[0] != (rv[2] != "0"):
                        errs.add("a path on which estimate(a) %s estimate(b) is %s returns %s" % (op, tv[0], rv[2] != "0"))
                    continue
            if not (isinstance(rv, tuple) and rv[0] == "bin" and rv[1] == op):
                if isinstance(rv, tuple) and rv[0] == "bin" and rv[1] in ops.values():
                    errs.add("returns `%s` of the two values; %s must apply `%s`" % (rv[1], name, op))
                else:
                    errs.add("a path returns %s, which is not %s applied to the two estimates (a short cut that does not consult the sketch)" % (fmt_val(rv)[:40], op))
                continue
            for side, key in ((rv[2], ("param", 2, False)), (rv[3], ("param", 3, False))):
                e = est_expr(p, side, key, False)
                if e:
                    errs.add("operand for %s: %s" % ("a" if key[1] == 2 else "b", e))
        if errs:
            chk.violation("C11.R4", name, "%s: %s" % (f["q"], sorted(errs)[0]), f["span"]["file"], f["span"]["lo"], f["q"], None, cfg)
        else:
            chk.ob("C11.R4", "%s:%s" % (cfg, name), "%s(estimate(a), estimate(b)) on %d paths" % (op, n))


_IDS = re.compile(r"[#@]\d+")


def item_free(t):
    """the term with every 'current item of an iteration' (for-loop `next()` payload or for_each/all/any item) replaced by one token, so
    that the same index formula is recognised whichever loop form each function uses"""
    if not isinstance(t, tuple):
        return t
    if t[0] == "iter_item":
        return ("sym", "ITEM")
    if t[0] == "proj" and isinstance(t[1], tuple) and t[1][0] == "call" and (t[1][2] or "").endswith("Iterator>::next"):
        return ("sym", "ITEM")
    return tuple(item_free(x) for x in t)


def r5(cx, chk, cfg, F):
    def probes(fname, callee):
        f = F.find(BLOOM + "::" + fname)
        out = set()
        for p in cx.paths(cfg, f["path"]):
            for e in outer_enters(p, lambda e: e["q"] == BLOOM + "::" + callee):
                out.add(_IDS.sub("", fmt_val(item_free(e["args"][1]))))
        return f, out
    fa, pa = probes("add", "set")
    fc, pc = probes("contains", "is_set")
    if pa and pa == pc:
        chk.ob("C11.R5", cfg + ":add/contains", "same index expression", {"index": sorted(pa)[0][:160]})
    else:
        chk.violation("C11.R5", "index-drift", "Bloom::add sets bits at %s but Bloom::contains tests %s: a recorded key can be reported absent" % (sorted(pa)[:1], sorted(pc)[:1]),
                      fa["span"]["file"], fa["span"]["lo"], fa["q"], None, cfg)
    # set / is_set address the same word and bit
    fs = F.find(BLOOM + "::set")
    fi = F.find(BLOOM + "::is_set")

    def wordbit(f):
        out = set()
        for p in cx.paths(cfg, f["path"]):
            for e in p.events:
                if e["ev"] == "call" and (e["q"] or "").split("::")[-1] in ("index", "index_mut"):
                    out.add(_IDS.sub("", fmt_val(e["args"][1])))
        return out
    if wordbit(fs) and wordbit(fs) == wordbit(fi):
        chk.ob("C11.R5", cfg + ":set/is_set", "same word index")
    else:
        chk.violation("C11.R5", "word-drift", "Bloom::set and Bloom::is_set address different words (%s vs %s)" % (wordbit(fs), wordbit(fi)), fs["span"]["file"], fs["span"]["lo"], fs["q"], None, cfg)
    f = F.find(BLOOM + "::contains_or_add")
    good = True
    for p in cx.paths(cfg, f["path"], policy=OpaqueBloomInner(), tag="coa"):
        c = calls(p, "Bloom::contains")
        a = calls(p, "Bloom::add")
        if len(c) != 1:
            good = False
            continue
        r = ("call", c[0]["id"], c[0]["q"])
        t = [tt for cc, tt, e in cond_facts(p) if cc == r]
        if not t or bool(a) == t[0] or (a and a[0]["args"][1] != c[0]["args"][1]) or p.ret not in (("const", "bool", "0" if t[0] else "1"), ("un", "Not", r)):
            good = False
    if good:
        chk.ob("C11.R5", cfg + ":contains_or_add", "adds exactly when contains is false and reports it")
    else:
        chk.violation("C11.R5", "contains_or_add", "contains_or_add does not add exactly when the key is absent / misreports", f["span"]["file"], f["span"]["lo"], f["q"], None, cfg)


class OpaqueBloomInner(absint.DefaultPolicy):
    def inline(self, interp, fr, info):
        return not (info["q"] or "").startswith(BLOOM + "::")


def r6(cx, chk, cfg, F):
    ROW = "lfu::tinylfu::sketch::count_min_row::CountMinRow"
    f = F.find(ROW + "::increment")
    ok = False
    bad = None
    for p in cx.paths(cfg, f["path"]):
        st = [e for e in p.events if e["ev"] == "store" and e["loc"][0] == "H"]
        if not st:
            continue
        # a fact that bounds a masked nibble by 14: `n < 15` passed, `n == 15` / `n >= 15` failed, ... in either operand order
        g = []
        for c, t, e in cond_facts(p):
            if not (isinstance(c, tuple) and c[0] == "bin" and c[1] in ("Lt", "Le", "Gt", "Ge", "Eq", "Ne")):
                continue
            for op, x, y in ((c[1], c[2], c[3]), ({"Lt": "Gt", "Gt": "Lt", "Le": "Ge", "Ge": "Le"}.get(c[1], c[1]), c[3], c[2])):
                if not (isinstance(y, tuple) and y[0] == "const" and str(y[2]).isdigit()):
                    continue
                k = int(y[2])
                o = op if t else {"Eq": "Ne", "Ne": "Eq", "Lt": "Ge", "Ge": "Lt", "Gt": "Le", "Le": "Gt"}[op]
                if (o == "Lt" and k <= 15) or (o == "Le" and k <= 14) or (o == "Ne" and k == 15 and any(z == ("const", "u8", "15") for z in subterms(x))):
                    g.append(((c[1], x, y), t))
        if not g:
            bad = "the counter byte is incremented on a path that does not establish v < 15 (a saturated nibble would overflow into its neighbour)"
            continue
        v = g[0][0][1]
        shifts = set(_IDS.sub("", fmt_val(t)) for t in subterms(v) if t[0] == "bin" and t[1] == "Shr")
        inc = st[0]["val"]
        # the increment is `1 << s`; the tested nibble is `(byte >> s') & 0x0f`: s and s' must be the same expression
        # (only these two shifts count - the shift distance itself may be written with a shift, e.g. `(i & 1) << 2`)
        incs = set(_IDS.sub("", fmt_val(t[3])) for t in subterms(inc) if t[0] == "bin" and t[1] == "Shl" and absint.const_int(t[2]) == 1)
        vs = set()
        for t in subterms(v):
            if t[0] == "bin" and t[1] == "BitAnd" and 15 in (absint.const_int(t[2]), absint.const_int(t[3])):
                sh = t[2] if absint.const_int(t[3]) == 15 else t[3]
                while isinstance(sh, tuple) and sh[0] == "cast":
                    sh = sh[3]
                if isinstance(sh, tuple) and sh[0] == "bin" and sh[1] == "Shr":
                    vs.add(_IDS.sub("", fmt_val(sh[3])))
        if not (incs and incs == vs):
            bad = "the nibble that is tested (shift %s) is not the nibble that is incremented (shift %s)" % (sorted(vs), sorted(incs))
        else:
            ok = True
    if ok and not bad:
        chk.ob("C11.R6", cfg + ":row-increment", "increment guarded by v < 15 on the same nibble")
    else:
        chk.violation("C11.R6", "row-increment", "CountMinRow::increment: %s" % (bad or "no incrementing path found"), f["span"]["file"], f["span"]["lo"], f["q"], None, cfg)
    f = F.find(ROW + "::reset")
    good = False
    for p in cx.paths(cfg, f["path"]):
        for e in p.events:
            # a store through the current element of the iteration over the bytes (for_each item, for-loop `next()` payload, indexed element)
            if e["ev"] == "store" and e["loc"][0] == "H" and isinstance(e["loc"][1], tuple) and e["loc"][1][0] in ("iter_item", "proj", "call") and e["loc"][2] == ():
                v = e["val"]
                want_inner = ("bin", "Shr", ("load", e["loc"], 0), None)
                if isinstance(v, tuple) and v[0] == "bin" and v[1] == "BitAnd" and v[3] == ("const", "u8", "119") and isinstance(v[2], tuple) and v[2][:2] == ("bin", "Shr") \
                        and v[2][2][:2] == ("load", e["loc"]) and str(v[2][3][2]) == "1":
                    good = True
                else:
                    good = False
                    chk.violation("C11.R6", "row-reset", "CountMinRow::reset maps a byte to %s, not (b >> 1) & 0x77: halving would leak a bit between the two counters of a byte" % fmt_val(v)[:80],
                                  f["span"]["file"], e.get("ln"), f["q"], None, cfg)
                    return
    if good:
        chk.ob("C11.R6", cfg + ":row-reset", "every byte := (b >> 1) & 0x77")
    else:
        chk.violation("C11.R6", "row-reset|none", "CountMinRow::reset does not rewrite the counter bytes", f["span"]["file"], f["span"]["lo"], f["q"], None, cfg)


def whole_of(p, t, fld):
    """does term t (receiver of fill / iter_mut / a loop) denote the WHOLE vector self.<fld> - reached through deref/as_mut_slice/iter_mut
    only, never through an index, range or split?"""
    for _ in range(8):
        if isinstance(t, tuple) and t[0] == "ref" and t[1][0] == "H" and t[1][1] == ("param", 1, True) and t[1][2] == (fld,):
            return True
        if isinstance(t, tuple) and t[0] == "call":
            ce = [e for e in p.events if e["ev"] == "call" and e.get("id") == t[1]]
            if not ce or not ce[0]["args"] or (ce[0]["q"] or "").split("::")[-1] not in ("deref_mut", "deref", "as_mut_slice", "as_mut", "iter_mut", "borrow_mut", "into_iter"):
                return False
            t = ce[0]["args"][0]
            continue
        return False
    return False


def r8(cx, chk, cfg, F):
    """`reset halves the counts and clears the doorkeeper`, `0 for every key right after clear`: the three wipe functions cover their
    whole vector (a sub-slice would leave bits / counters behind)"""
    ROW = "lfu::tinylfu::sketch::count_min_row::CountMinRow"
    for q, fld in ((BLOOM + "::clear", "bitset"), (ROW + "::clear", "0"), (ROW + "::reset", "0")):
        f = F.find(q)
        good = False
        bad = None
        for p in cx.paths(cfg, f["path"]):
            for e in p.events:
                if e["ev"] == "call" and (e["q"] or "").split("::")[-1] == "fill" and e["args"]:
                    if whole_of(p, e["args"][0], fld):
                        good = True
                    else:
                        bad = "fills only part of self.%s (%s)" % (fld, fmt_val(e["args"][0])[:60])
                if e["ev"] == "loop":
                    if whole_of(p, e.get("iter"), fld):
                        good = True
                    elif isinstance(e.get("iter"), tuple):
                        bad = "iterates over only part of self.%s (%s)" % (fld, fmt_val(e["iter"])[:60])
                if e["ev"] == "call" and (e["q"] or "").endswith("Iterator>::next") and e["args"]:
                    it = e["args"][0]
                    if isinstance(it, tuple) and it[0] == "ref" and p.st is not None:
                        it = absint.Interp(None).read(p.st, it[1])
                    if whole_of(p, it, fld):
                        good = True
        if bad or not good:
            chk.violation("C11.R8", q.split("::")[-2] + "::" + q.split("::")[-1], "%s %s: what it skips survives every reset / clear" % (q, bad or ("does not visibly wipe the whole of self.%s" % fld)),
                          f["span"]["file"], f["span"]["lo"], f["q"], None, cfg)
        else:
            chk.ob("C11.R8", "%s:%s" % (cfg, q), "covers the whole of self.%s" % fld)


def r7(cx, chk, cfg, F):
    """set_locs >= 1 on every successful path of TinyLFUBuilder::finalize: with zero locations Bloom::contains is vacuously true for
    every hash, so estimates start at 1 and contains() reports unrecorded keys"""
    from .lib import sign
    from .lib.ranges import Ctx
    f = F.find("lfu::tinylfu::TinyLFUBuilder::finalize")
    n = 0
    for p in cx.paths(cfg, f["path"], policy=NoGetSize(), tag="r7"):
        rv = p.ret
        if not (isinstance(rv, tuple) and rv[0] == "agg" and rv[2][1] == "Ok"):
            continue
        bl = [t for t in subterms(rv) if t[0] == "agg" and t[1] == "adt" and t[2][0].endswith("Bloom")]
        if not bl:
            chk.undecide("C11.R7", f["q"], "no Bloom aggregate in the constructed TinyLFU")
            continue
        v = dict(zip(bl[0][4], bl[0][3]))
        locs = v.get("set_locs")
        c = Ctx(p, len(p.events))
        n += 1
        if sign.int_ge1(locs, c):
            chk.ob("C11.R7", "%s:set_locs|%d" % (cfg, n), "set_locs = %s >= 1" % fmt_val(locs)[:70])
        else:
            chk.violation("C11.R7", "set_locs", "the number of doorkeeper hash locations (%s) is not shown to be >= 1 for every accepted false-positive ratio: with 0 locations the doorkeeper contains every key" % fmt_val(locs)[:90],
                          "src/lfu/tinylfu/bloom.rs", None, f["q"], None, cfg)
    if n < 1:
        raise AnalysisError("C11.R7: no successful constructor path")


class NoGetSize(absint.DefaultPolicy):
    def inline(self, interp, fr, info):
        q = info["q"] or ""
        return not (q.endswith("::get_size") or q.endswith("::next_power_of_2"))
