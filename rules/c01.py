"""C01 - capacity bound and size accounting."""
from .lib import api, ntrun, composite, lin
from .lib.absint import fmt_val, fmt_loc, subterms
from .lib.nt import fmt_list, payload_field
from .lib.facts import AnalysisError

LEVEL = "other"
EXPLANATION = (
    "Structural necessary conditions of the size invariants, decided on every acyclic path of the fully inlined MIR of every exported "
    "function (both configurations). R1 insert-guard: every insert into a list's index happens on a path carrying room for that list (the "
    "false edge of len >= cap / len == cap, or a successful removal from it since). R3 admit-guard (2Q/ARC, whose resident lists each have "
    "the cache's full capacity): every insert into a resident list is preceded by a guaranteed removal from a resident list or lies under "
    "the fact sum(resident len) < size (slack accounting; a removal attempt that may fail without falling back to the other resident list "
    "gives no slack; the path on which every resident list is empty although their sum was tested >= size is infeasible). R4 one-partition: "
    "inserting the caller's key into list X is dominated, for every other retained list Y, by a failed lookup or a removal of that key in Y. "
    "R5 observer agreement: len/contains/peek/peek_mut/get/get_mut consult the same (resident) lists, is_empty/purge/remove touch every "
    "retained list, len() is the plain sum of the resident lists' lengths, cap() is the sum of the configured bounds. R2 constructors: each "
    "inner list is built with the capacity its accessor reports and size >= 1. The arithmetic sufficiency of the 2Q/ARC admit conditions over "
    "whole histories is an inductive numeric invariant: R3 checks its skeleton (assume sum <= size at entry, re-establish at exit)."
)
TRUSTED_BASE = ["as C03", "sum(resident) <= size is assumed at every API entry and shown re-established at every exit (assume/guarantee)"]

PUT_ROOTS = [("RawLRU", "put", api.CACHE_TRAIT), ("SegmentedCache", "put", api.CACHE_TRAIT), ("TwoQueueCache", "put", api.CACHE_TRAIT),
             ("AdaptiveCache", "put", api.CACHE_TRAIT), ("WTinyLFUCache", "put", api.CACHE_TRAIT), ("SegmentedCache", "put_protected", None)]


def retained_lists(F, adt, prefix=()):
    out = []
    for name, head in composite.list_fields(F, adt):
        if head == api.CACHES["RawLRU"]:
            out.append(prefix + (name,))
        else:
            out += retained_lists(F, head, prefix + (name,))
    return out


def run(cx, chk):
    chk.rule("C01.R1", "insert-guard: every map.insert on a list is reached only with room for that list")
    chk.rule("C01.R2", "constructors: each inner list gets the capacity its accessor reports; size/caps >= 1; cap() is the sum of the bounds")
    chk.rule("C01.R3", "admit-guard (2Q/ARC): insert into a resident list only after a guaranteed resident removal or under sum < size")
    chk.rule("C01.R4", "one-partition: the caller's key enters list X only after it was looked up unsuccessfully in / removed from every other retained list")
    chk.rule("C01.R6", "resize(n) makes n the enforced bound: self.cap := n on every path but the cap-unchanged early return, after evicting down to n")
    chk.rule("C01.R5", "observer agreement: len/contains/peek*/get* consult the same lists; is_empty/purge/remove touch all retained lists; len is their plain sum")
    chk.rule("C01.R7", "the bounds of a clone are the bounds of the original: every usize field of a cache's Clone impl comes from the same field of self")
    chk.rule("C01.R8", "configuration integrity: builder methods never cross-wire fields (a size/ratio/hasher kept from the old builder stays in its own field), and a value named after one segment is never passed / stored for another segment of the same family")
    for cfg, F in cx.cfgs():
        chk.floor("C01.R7", "Clone impls of cache types in %s" % cfg, composite.clone_bounds(cx, chk, cfg, F, "C01.R7"), 3)
        chk.floor("C01.R8", "builder methods in %s" % cfg, composite.builder_setters(cx, chk, cfg, F, "C01.R8"), 12)
        chk.floor("C01.R8", "segment-named arguments / fields in %s" % cfg, composite.role_wiring(cx, chk, cfg, F, "C01.R8"), 20)
        r1_r3(cx, chk, cfg, F)
        r4(cx, chk, cfg, F)
        r5(cx, chk, cfg, F)
        r2(cx, chk, cfg, F)
        # R6: the bound cap() reports is the bound that was requested: resize stores it on every path that is not the cap-unchanged
        # early return (shape rule shared with C06.R3)
        from . import c06

        class Relabel:
            def ob(self_, rule, key, how="ok", sample=None):
                chk.ob("C01.R6", key, how, sample)

            def violation(self_, rule, key, msg, *a, **k):
                chk.violation("C01.R6", key, msg, *a, **k)
        c06.resize(cx, Relabel(), cfg, F)


def r1_r3(cx, chk, cfg, F):
    n_ins = n_res = 0
    per_root = {}
    for f, p, w in ntrun.walk(cx, cfg):
        for ev in w.events_on:
            if ev[1] != "index":
                continue
            i, _, X, n, had_room, slack = ev
            e = p.events[i]
            g = F.fns.get(e.get("fn")) or f
            n_ins += 1
            st = per_root.setdefault((f["q"], g["q"], fmt_list(X)), [0, 0])
            st[0] += 1
            if had_room is not True and X[0] == "H":   # lists built on this very path (a clone) are checked where they are `self`
                chk.violation("C01.R1", "%s|%s|%s" % (f["q"], g["q"], fmt_list(X)), "%s inserts into %s.map on a path with no room fact for that list (no `len < cap` edge and no removal from it since): the list can exceed its bound"
                              % (g["q"], fmt_list(X)), g["span"]["file"], e.get("ln"), g["q"], ["root " + f["q"]], cfg)
            if slack is not None:
                n_res += 1
                st[1] += 1
                if slack < 1:
                    chk.violation("C01.R3", "%s|%s|%s" % (f["q"], g["q"], fmt_list(X)),
                                  "an entry is added to the resident list %s without a guaranteed removal from a resident list and without the fact sum(resident) < size: the cache can exceed cap()"
                                  % fmt_list(X), g["span"]["file"], e.get("ln"), g["q"], ["root " + f["q"]], cfg)
    for (root, fn, X), (a, b) in sorted(per_root.items()):
        chk.ob("C01.R1", "%s:%s|%s|%s" % (cfg, root, fn, X), "room on %d path visits" % a)
        if b:
            chk.ob("C01.R3", "%s:%s|%s|%s" % (cfg, root, fn, X), "slack >= 1 on %d path visits" % b)
    chk.floor("C01.R1", "insert events in %s" % cfg, n_ins, 500)
    chk.floor("C01.R3", "resident insert events in %s" % cfg, n_res, 100)


def r4(cx, chk, cfg, F):
    KP = ("param", 2, False)
    for short, name, trait in PUT_ROOTS:
        adt = api.CACHES[short]
        if short == "RawLRU":
            continue
        f = composite.cache_method(F, adt, name, trait)
        lists = [("H", ("param", 1, True), x) for x in retained_lists(F, adt)]
        n = 0
        ok = True
        for f_, p, w in ntrun.walk(cx, cfg, only=lambda g: g["path"] == f["path"]):
            cleared = set()
            for ev in w.events_on:
                i, kind, X = ev[0], ev[1], ev[2]
                e = p.events[i]
                if kind in ("lookup-miss", "remove-miss") and key_is(p, e, KP):
                    cleared.add(X)
                elif kind == "unindex" and key_is(p, e, KP):
                    cleared.add(X)
                elif kind == "index":
                    node = ev[3]
                    if node[0] != "alloc":
                        continue
                    nv = p.st.store.get(("H", node, ()))
                    kv = dict(zip(nv[4], nv[3])).get("key") if isinstance(nv, tuple) and nv[0] == "agg" else None
                    if kv != KP:
                        continue
                    n += 1
                    missing = [Y for Y in lists if Y != X and Y not in cleared]
                    if missing:
                        ok = False
                        g = F.fns.get(e.get("fn")) or f
                        chk.violation("C01.R4", "%s|%s|%s" % (f["q"], fmt_list(X), ",".join(fmt_list(y) for y in missing)),
                                      "%s puts the caller's key into %s without having looked it up in / removed it from %s: the key can end up in two partitions"
                                      % (f["q"], fmt_list(X), ", ".join(fmt_list(y) for y in missing)), g["span"]["file"], e.get("ln"), g["q"], ["root " + f["q"]], cfg)
        if ok:
            chk.ob("C01.R4", "%s:%s" % (cfg, f["q"]), "%d fresh-key insertions, each dominated by a miss/removal in every other retained list" % n)
        chk.floor("C01.R4", "fresh-key insertions in %s (%s)" % (f["q"], cfg), n, 1)


def key_is(p, e, KP):
    from .c02 import hit_on_key
    ks = e.get("keysrc")
    if ks == KP or ks == ("kv", KP):
        return True
    return hit_on_key(p, (p.events.index(e),), KP) if False else _key_is(p, ks, KP)


def _key_is(p, ks, KP):
    from .c02 import READER
    if isinstance(ks, tuple) and ks[0] == "ref" and ks[1][0] in ("L", "T"):
        v = READER.read(p.st, ks[1])
        if isinstance(v, tuple) and v[0] == "moved":
            v = v[1]
        return v == KP
    return False


def lists_consulted(cx, cfg, F, f):
    out = set()
    for p in cx.paths(cfg, f["path"]):
        for e in p.events:
            if e["ev"] == "call" and "hm" in e and not e.get("generic") and e["recv"][0] == "H" and e["recv"][1] == ("param", 1, True):
                out.add(e["recv"][2][:-1])
        for t in subterms(p.ret):
            if t[0] == "len" and t[1][0] == "H" and t[1][1] == ("param", 1, True):
                out.add(t[1][2][:-1])
        for e in p.events:
            if e["ev"] == "branch" and isinstance(e.get("cond"), tuple):
                for t in subterms(e["cond"]):
                    if t[0] == "len" and t[1][0] == "H" and t[1][1] == ("param", 1, True):
                        out.add(t[1][2][:-1])
    return out


def r5(cx, chk, cfg, F):
    for short, adt in api.CACHES.items():
        if short == "RawLRU":
            continue
        retained = set(retained_lists(F, adt))
        sets = {}
        for name in ("len", "contains", "peek", "peek_mut", "get", "get_mut", "is_empty", "purge", "remove"):
            f = composite.cache_method(F, adt, name)
            sets[name] = (lists_consulted(cx, cfg, F, f), f)
        resident = sets["len"][0]
        for name in ("contains", "peek", "peek_mut", "get", "get_mut"):
            s, f = sets[name]
            if s != resident:
                chk.violation("C01.R5", "%s::%s" % (short, name), "%s::%s consults %s but len() counts %s" % (short, name, sorted(".".join(x) for x in s), sorted(".".join(x) for x in resident)),
                              f["span"]["file"], f["span"]["lo"], f["q"], None, cfg)
            else:
                chk.ob("C01.R5", "%s:%s::%s" % (cfg, short, name), "consults the resident lists %s" % sorted(".".join(x) for x in s))
        for name in ("is_empty", "purge", "remove"):
            s, f = sets[name]
            if name == "purge":
                s = set()
                for p in cx.paths(cfg, f["path"]):
                    for e in p.events:
                        if e["ev"] == "enter" and e["q"].endswith("::purge") and e["args"] and isinstance(e["args"][0], tuple) and e["args"][0][0] == "ref":
                            l = e["args"][0][1]
                            if l[0] == "H" and l[1] == ("param", 1, True):
                                s.add(l[2])
                s = set(x for x in s if x in retained) | set(x for x in retained if any(x[:len(y)] == y for y in s))
            if not retained <= s:
                chk.violation("C01.R5", "%s::%s" % (short, name), "%s::%s does not touch %s" % (short, name, sorted(".".join(x) for x in retained - s)),
                              f["span"]["file"], f["span"]["lo"], f["q"], None, cfg)
            else:
                chk.ob("C01.R5", "%s:%s::%s" % (cfg, short, name), "touches every retained list")
        # len is the plain sum
        f = sets["len"][1]
        for p in cx.paths(cfg, f["path"]):
            d = lin.norm(lin.lin(p.ret))
            good = all(isinstance(k, tuple) and k[0] == "len" and c == 1 for k, c in d.items()) and len(d) == len(resident)
            if good:
                chk.ob("C01.R5", "%s:%s::len|sum" % (cfg, short), "len() = sum of len of %d lists, each once" % len(d))
            else:
                chk.violation("C01.R5", "%s::len|sum" % short, "len() returns %s, not the plain sum of the resident lists' lengths" % fmt_val(p.ret)[:120],
                              f["span"]["file"], f["span"]["lo"], f["q"], None, cfg)
        if not resident <= retained:
            f = sets["len"][1]
            chk.violation("C01.R5", "%s::len|resident" % short, "len() counts %s which are not lists of the cache" % sorted(resident - retained), f["span"]["file"], f["span"]["lo"], f["q"], None, cfg)


def r2(cx, chk, cfg, F):
    RAW = api.CACHES["RawLRU"]
    for short, adt in api.CACHES.items():
        if short == "RawLRU":
            continue
        a = F.adts[adt]
        fnames = [x["n"] for x in a["variants"][0]["fields"]]
        n_ctor_paths = 0
        for f in F.doc["fns"]:
            if f["kind"] != "AssocFn" or not f.get("exported") or f.get("has_self") and "Builder" not in f["q"]:
                continue
            if adt not in str(f.get("output")):
                continue
            for p in cx.paths(cfg, f["path"]):
                aggs = [t for t in subterms(p.ret) if t[0] == "agg" and t[1] == "adt" and t[2][0] == adt]
                if not aggs:
                    continue
                n_ctor_paths += 1
                vals = dict(zip(aggs[0][4], aggs[0][3]))
                caps = {}
                for fld, v in vals.items():
                    if isinstance(v, tuple) and v[0] == "agg" and v[1] == "adt" and v[2][0] == RAW:
                        caps[fld] = dict(zip(v[4], v[3]))["cap"]
                bad = None
                if short == "SegmentedCache":
                    for fld, cap in caps.items():
                        if vals.get(fld + "_size") != cap:
                            bad = "list `%s` is built with capacity %s but %s_size is %s" % (fld, fmt_val(cap), fld, fmt_val(vals.get(fld + "_size")))
                elif "size" in vals:
                    res = composite.resident(cx, cfg, adt)
                    for fld in res:
                        if caps.get(fld) != vals["size"]:
                            bad = "resident list `%s` is built with capacity %s, not the cache size %s" % (fld, fmt_val(caps.get(fld)), fmt_val(vals["size"]))
                # every capacity must be known non-zero on this path (validation dominates construction)
                for fld, cap in caps.items():
                    if not nonzero_on_path(p, cap):
                        bad = bad or "capacity %s of `%s` is not validated (no `== 0 -> Err` guard on this path)" % (fmt_val(cap), fld)
                key = "%s|%s" % (f["q"], short)
                if bad:
                    chk.violation("C01.R2", key, "%s: %s" % (f["q"], bad), f["span"]["file"], f["span"]["lo"], f["q"], None, cfg)
                else:
                    chk.ob("C01.R2", "%s:%s" % (cfg, key), "capacities agree with the configured bounds and are validated non-zero")
        chk.floor("C01.R2", "constructor paths of %s in %s" % (short, cfg), n_ctor_paths, 1)
        # cap()
        f = composite.cache_method(F, adt, "cap")
        for p in cx.paths(cfg, f["path"]):
            d = lin.norm(lin.lin(p.ret))
            fields = sorted(k[1][2] for k in d if isinstance(k, tuple) and k[0] == "load")
            want = {"SegmentedCache": [("probationary_size",), ("protected_size",)], "TwoQueueCache": [("size",)], "AdaptiveCache": [("size",)],
                    "WTinyLFUCache": [("lru", "cap"), ("slru", "probationary_size"), ("slru", "protected_size")]}[short]
            if fields == sorted(want) and all(c == 1 for c in d.values()):
                chk.ob("C01.R2", "%s:%s::cap" % (cfg, short), "cap() = " + " + ".join(".".join(x) for x in want))
            else:
                chk.violation("C01.R2", "%s::cap" % short, "cap() returns %s" % fmt_val(p.ret)[:120], f["span"]["file"], f["span"]["lo"], f["q"], None, cfg)


def nonzero_on_path(p, term):
    if isinstance(term, tuple) and term[0] == "const":
        try:
            return int(term[2]) != 0
        except (TypeError, ValueError):
            return False
    for f in p.facts:
        if f[0] == "cond" and isinstance(f[1], tuple) and f[1][0] == "bin" and f[1][1] in ("Eq", "Ne"):
            a, b = f[1][2], f[1][3]
            other = b if a == term else a if b == term else None
            if other is not None and isinstance(other, tuple) and other[0] == "const" and str(other[2]) == "0":
                truth = str(f[2]) not in ("0", "false") if not isinstance(f[2], tuple) else ("0" in [str(x) for x in f[2][1]])
                if (f[1][1] == "Eq") != truth:
                    return True
    return False
