"""C04 - ownership conservation: node typestate exit obligations and payload move counting."""
from .lib import api, ntrun, composite
from .lib.facts import AnalysisError

LEVEL = "other"
EXPLANATION = (
    "Node typestate (see C03) exit obligations on every normal path of every exported function: a node taken out of a list is re-inserted, "
    "returned, or re-boxed exactly once (a discarded Option<NonNull> is a leak), no node is re-boxed or deallocated twice, key and val of "
    "every re-boxed node are each moved out / dropped exactly once, a recycled node's old pair is consumed exactly once, a MaybeUninit field "
    "is never overwritten while still initialised; plus who-may-call on forget/leak APIs and purge/Drop reaching every retained list. "
    "Allocator-level live-block counts are a runtime observation and are not decided; panics are C18's subject."
    " R7: Drop::drop of a list frees both sentinel blocks on every path and the drained nodes (engine of C03.R5)."
)
TRUSTED_BASE = ["as C03", "K/V values moved out of MaybeUninit into typed locals are dropped by rustc's drop elaboration (only forget-like APIs can lose them: R3)"]

FORGET = ("core::mem::forget", "alloc::boxed::Box::leak", "core::mem::ManuallyDrop::new", "core::mem::ManuallyDrop")


def run(cx, chk):
    chk.rule("C04.R1", "no node leak / double free: every unlinked+unindexed raw node is re-inserted, returned or re-boxed exactly once")
    chk.rule("C04.R2", "payload exactly once: key/val of a freed node each moved out or dropped exactly once; recycled pair consumed once")
    chk.rule("C04.R3", "no mem::forget / ManuallyDrop / Box::leak anywhere; Box::into_raw only on freshly allocated EntryNodes")
    chk.rule("C04.R4", "purge of every cache purges every retained list; RawLRU::purge drains through remove_lru")
    chk.rule("C04.R5", "when the eviction callback (user code whose failure is an expected event) runs, no raw node is in flight: unlinked, unindexed and owned by nothing")

    def cb_extra(cfg, F, f, p, w):
        from .lib.absint import fmt_val
        for (i, e, kind, snap) in w.snapshots:
            if kind != "cb":
                continue
            for n, st in snap.items():
                if st.kind in ("unknown", "sentinel"):
                    continue
                if st.own == "raw" and not isinstance(st.link, tuple) and not isinstance(st.index, tuple):
                    g = F.fns.get(e.get("fn")) or f
                    chk.violation("C04.R5", "%s|%s" % (f["q"], st.src.split("#")[0]),
                                  "the eviction callback runs while node %s is unlinked, unindexed and not owned (%s): if the callback panics the node and its key/value are never released"
                                  % (fmt_val(n), "; ".join(st.hist[-3:])), g["span"]["file"], e.get("ln"), g["q"], ["root " + f["q"]], cfg)
    chk.rule("C04.R6", "a value duplicated with ptr::read / assume_init_read is not dropped at its source afterwards (unless the source was overwritten with ptr::write first): the copy and the original would both be released")

    chk.rule("C04.R7", "dropping a list releases its two sentinel blocks on every path and every drained node (the live-block half of 'no leak'; engine of C03.R5)")
    drop_seen = {}

    def dup_extra(cfg, F, f, p, w):
        cb_extra(cfg, F, f, p, w)
        ntrun.dup_source_drops(chk, cfg, F, f, p, "C04.R6")
        if ntrun.is_teardown(f) and f["q"].startswith("<lru::raw::RawLRU"):
            drop_seen.setdefault(cfg, []).append((len([e for e in w.events_on if e[1] == "free-sentinel"]), len([e for e in w.events_on if e[1] == "rebox"])))
    ntrun.report_findings(cx, chk, ("C04.",), dup_extra)
    for cfg, F in cx.cfgs():
        got = drop_seen.get(cfg)
        if not got:
            raise AnalysisError("C04.R7: Drop::drop of RawLRU not analysed in %s" % cfg)
        fd = F.find("RawLRU as core::ops::Drop>::drop")
        if all(fr == 2 for fr, rb in got) and any(rb >= 1 for fr, rb in got):
            chk.ob("C04.R7", cfg + ":RawLRU::drop", "both sentinels freed on each of %d paths, drained nodes freed in the loop body" % len(got))
        else:
            chk.violation("C04.R7", "RawLRU::drop", "a path of Drop::drop does not free both sentinel blocks exactly once, or no path frees the drained nodes (sentinel frees, node frees per path: %s): heap blocks leak" % sorted(set(got)),
                          fd["span"]["file"], fd["span"]["lo"], fd["q"], None, cfg)
    for cfg, F in cx.cfgs():
        n_into = 0
        for b in F.doc["bodies"]:
            fn = F.fns[b["path"]]
            for blk in b["blocks"]:
                t = blk["t"]
                if t["k"] != "call" or "q" not in t["f"]:
                    continue
                q = t["f"]["q"]
                if any(q.startswith(x) for x in FORGET):
                    chk.violation("C04.R3", "forget|%s|%s" % (fn["q"], q), "%s used: owned values may be lost without being dropped" % q,
                                  fn["span"]["file"], t["ln"], fn["q"], None, cfg)
                if q == "alloc::boxed::Box::into_raw":
                    n_into += 1
                    if "EntryNode" not in t["f"]["args"][0]:
                        chk.violation("C04.R3", "into_raw|%s" % fn["q"], "Box::into_raw on %s" % t["f"]["args"][0], fn["span"]["file"], t["ln"], fn["q"], None, cfg)
                    else:
                        chk.ob("C04.R3", "%s:into_raw:%s" % (cfg, fn["q"]), "allocation site of an EntryNode")
        chk.floor("C04.R3", "Box::into_raw sites in %s" % cfg, n_into, 3)
        # R4
        for short, adt in api.CACHES.items():
            f = composite.cache_method(F, adt, "purge")
            lists = [n for n, _ in composite.list_fields(F, adt)]
            if adt == api.CACHES["RawLRU"]:
                continue
            touched = set()
            for p in cx.paths(cfg, f["path"]):
                t = set()
                for e in p.events:
                    if e["ev"] in ("enter",) and e["q"].endswith("::purge") and e["args"]:
                        a = e["args"][0]
                        if isinstance(a, tuple) and a[0] == "ref" and a[1][0] == "H" and a[1][2]:
                            t.add(a[1][2][0])
                touched = t if not touched else (touched & t)
            miss = set(lists) - touched
            if miss:
                chk.violation("C04.R4", "%s::purge|%s" % (adt, ",".join(sorted(miss))), "purge of %s does not purge %s" % (short, sorted(miss)),
                              f["span"]["file"], f["span"]["lo"], f["q"], None, cfg)
            else:
                chk.ob("C04.R4", "%s:%s::purge" % (cfg, short), "purges %s" % sorted(lists))
