"""C12 - PutResult tells the truth about what a put did."""
from .lib import api, ntrun, composite
from .lib.absint import fmt_val, fmt_loc, subterms
from .lib.nt import payload_field, fmt_list
from .lib.facts import AnalysisError
from . import c02

LEVEL = "other"
EXPLANATION = (
    "Return-value provenance on every path of the fully inlined MIR of every put-like function (Cache::put of the five caches, "
    "put_protected; both configurations). R1 (shared with C02.R3): a path returns Update/EvictedAndUpdate iff it exchanged the caller's value "
    "with exactly one node's value exactly once, and the payload is the value the swap took out; W-TinyLFU's window hit returns the value moved "
    "out of the removed window node. R2 nothing leaves unreported: every entry that departs on the path (a node re-boxed with its pair moved "
    "out, or recycled in place) has its key and value in the returned PutResult - unless it departs from an ARC ghost list (the property's "
    "stated exception) or is the hit node of the caller's own key (only its old value is reported); in particular a discarded inner "
    "PutResult::Evicted is a violation, and a path returning Put has no departure. R3: the key/value of an Evicted result are the moved-out "
    "fields of a departed node (or, for a cache resized to capacity 0, the incoming pair itself). R5 structural equality/clone: in "
    "impl PartialEq for PutResult every same-variant arm compares each leaf field of self with the same field of other and conjoins them, "
    "every cross-variant arm yields false; Clone rebuilds the same variant from clones of the same fields; Copy requires K: Copy, V: Copy. "
    "The 'exactly when' direction for Put vs Evicted over whole histories depends on run-time occupancy and is not decided."
)
TRUSTED_BASE = ["as C03"]

PUTS = c02.PUTS + [("WTinyLFUCache", "put", api.CACHE_TRAIT)]
GHOST_OK = ("recent_evict", "frequent_evict")   # ARC ghost lists: the property allows silent discards


def run(cx, chk):
    chk.rule("C12.R1", "hit => Update carrying the swapped-out value; no Update without a hit (shared with C02.R3)")
    chk.rule("C12.R2", "nothing leaves unreported: key and value of every departed entry flow into the returned PutResult (ARC ghosts excepted)")
    chk.rule("C12.R3", "Evicted payload provenance: the departed node's own key/value, or the incoming pair on the capacity-0 hand-back")
    chk.rule("C12.R4", "capacity-0 hand-back: RawLRU::put returns Evicted{k, v} of the incoming pair when cap == 0")
    chk.rule("C12.R5", "PartialEq/Clone of PutResult are structural and exhaustive; Copy is bounded by K: Copy, V: Copy")
    chk.rule("C12.R6", "results that are discarded because a guard makes eviction impossible (W-TinyLFU's put_protected under protected_len < protected_cap) rely on the guard reading "
                       "the true bound: clones and builders of the segmented / W-TinyLFU caches keep every bound in its own field")
    for cfg, F in cx.cfgs():
        composite.clone_bounds(cx, chk, cfg, F, "C12.R6", only=("SegmentedCache", "WTinyLFUCache"))
        composite.builder_setters(cx, chk, cfg, F, "C12.R6", only=("SegmentedCacheBuilder", "WTinyLFUCacheBuilder"))
        for short, name, trait in PUTS:
            f = composite.cache_method(F, api.CACHES[short], name, trait)
            if short != "WTinyLFUCache":
                c02.r3(cx, chk_proxy(chk), cfg, F, f)
            else:
                wtiny_r1(cx, chk, cfg, F, f)
            r2(cx, chk, cfg, F, f, short)
        r4(cx, chk, cfg, F)
        r5(cx, chk, cfg, F)


def r4(cx, chk, cfg, F):
    """capacity-0 hand-back: RawLRU::put has a path guarded by cap == 0 that returns Evicted{key: k, value: v} of the incoming pair"""
    f = composite.cache_method(F, api.CACHES["RawLRU"], "put")
    capl = ("load", ("H", ("param", 1, True), ("cap",)), 0)
    found = False
    for p in cx.paths(cfg, f["path"]):
        var, flds = c02.ret_variant(p.ret)
        zero = any(fc[0] == "cond" and isinstance(fc[1], tuple) and fc[1][0] == "bin" and fc[1][1] in ("Eq", "Ne") and capl in (fc[1][2], fc[1][3])
                   and ("const", "usize", "0") in (fc[1][2], fc[1][3]) and ((fc[1][1] == "Eq") == (str(fc[2]) not in ("0",) if not isinstance(fc[2], tuple) else True))
                   for fc in p.facts)
        if zero:
            if var == "Evicted" and flds.get("key") == ("param", 2, False) and flds.get("value") == ("param", 3, False):
                found = True
            else:
                chk.violation("C12.R4", "RawLRU::put|cap0", "on the capacity-0 path RawLRU::put returns %s instead of handing the incoming pair back as Evicted" % var,
                              f["span"]["file"], f["span"]["lo"], f["q"], None, cfg)
    if found:
        chk.ob("C12.R4", cfg + ":RawLRU::put|cap0", "cap == 0 => Evicted{key: k, value: v} of the incoming pair")
    else:
        chk.violation("C12.R4", "RawLRU::put|no-cap0-path", "RawLRU::put has no path for a cache resized to capacity 0 that hands the pair back as Evicted",
                      f["span"]["file"], f["span"]["lo"], f["q"], None, cfg)


class chk_proxy:
    """re-labels C02.R3 results as C12.R1"""
    def __init__(self, chk):
        self.chk = chk

    def ob(self, rule, key, how="ok", sample=None):
        self.chk.ob("C12.R1", key, how, sample)

    def violation(self, rule, key, msg, *a, **k):
        self.chk.violation("C12.R1", key, msg, *a, **k)

    def undecide(self, rule, key, why):
        self.chk.undecide("C12.R1", key, why)

    def floor(self, rule, name, n, floor):
        self.chk.floor("C12.R1", name, n, floor)


def departed_payload(p, w, n):
    """abstract key/value terms that were moved out of departed node n"""
    out = {}
    for ev in w.events_on:
        if ev[1] in ("recycle-key", "recycle-val") and ev[3] == n:
            out[ev[1][8:]] = ev[4]
    if out:
        return out
    return {"key": ("payload", n, "key"), "val": ("payload", n, "val")}


def term_has_payload(term, n, fld, recycled_old=None):
    for t in subterms(term):
        if recycled_old is not None and t == recycled_old:
            return True
        pf = payload_field(t)
        if pf and pf[0] == n and pf[1] == fld:
            return True
    return False


def r2(cx, chk, cfg, F, f, short):
    KP = ("param", 2, False)
    npaths = ndep = 0
    ok = True
    for f_, p, w in ntrun.walk(cx, cfg, only=lambda g: g["path"] == f["path"]):
        npaths += 1
        var, flds = c02.ret_variant(p.ret)
        hit_nodes = set(ev[3] for ev in w.events_on if ev[1] in ("lookup-hit", "unindex") and ev[3] is not None and c02.hit_on_key(p, ev, KP))
        seen = set()
        for (i, n, how) in w.departures:
            st = w.nodes.get(n)
            if st is None or st.kind == "sentinel" or n in seen:
                continue
            seen.add(n)
            ndep += 1
            origin = st.origin
            if origin is not None and origin[0] == "H" and origin[2] and origin[2][-1] in GHOST_OK and short == "AdaptiveCache":
                continue   # ARC may discard ghost entries silently
            rec = departed_payload(p, w, n)
            if migrated(p, w, n, rec):
                continue   # the pair was not dropped: it re-entered a retained list in a fresh node
            need = ("val",) if n in hit_nodes else ("key", "val")
            missing = []
            for fld in need:
                old = rec.get(fld)
                if not term_has_payload(p.ret, n, fld, old if not (isinstance(old, tuple) and old[0] == "payload") else None):
                    missing.append(fld)
            if missing:
                ok = False
                e = p.events[i]
                g = F.fns.get(e.get("fn")) or f
                chk.violation("C12.R2", "%s|%s|%s" % (f["q"], fmt_list(origin), ",".join(missing)),
                              "an entry leaves %s during %s (%s) but its %s not part of the returned %s: the caller is never told (silent loss)"
                              % (fmt_list(origin), f["q"], how, " and ".join(missing) + (" is" if len(missing) == 1 else " are"), var),
                              g["span"]["file"], e.get("ln"), g["q"], ["root " + f["q"]], cfg)
        # R3: Evicted payloads are departed nodes' payloads (or the incoming pair on hand-back)
        if var in ("Evicted", "EvictedAndUpdate"):
            if var == "Evicted":
                kk, vv = flds.get("key"), flds.get("value")
            else:
                ev_ = flds.get("evicted")
                kk = vv = None
                if isinstance(ev_, tuple) and ev_[0] == "agg" and len(ev_[3]) == 2:
                    kk, vv = ev_[3]
            good = False
            for (i, n, how) in w.departures:
                rec = departed_payload(p, w, n)
                if _is_payload(kk, n, "key", rec) and _is_payload(vv, n, "val", rec):
                    good = True
            if not good and kk == KP and vv == ("param", 3, False) and not w.departures:
                good = True   # capacity-0 hand-back
            if not good:
                ok = False
                chk.violation("C12.R3", "%s|evicted-payload" % f["q"], "%s returns %s whose key/value (%s, %s) are not the pair of an entry that departed on this path"
                              % (f["q"], var, fmt_val(kk)[:50], fmt_val(vv)[:50]), f["span"]["file"], f["span"]["lo"], f["q"], None, cfg)
        if var == "Put" and [d for d in w.departures if not _ghost(w, d[1], short)]:
            pass  # already reported by the payload rule above
    if ok:
        chk.ob("C12.R2", "%s:%s" % (cfg, f["q"]), "%d paths, %d departures, each reported in the result" % (npaths, ndep), {"fn": f["q"], "paths": npaths, "departures": ndep})


def migrated(p, w, n, rec):
    """key and value of the departed node were put into a freshly allocated node that ends up linked+indexed"""
    for m, st in w.nodes.items():
        if m[0] != "alloc" or not (isinstance(st.link, tuple) and isinstance(st.index, tuple)):
            continue
        nv = p.st.store.get(("H", m, ()))
        if not (isinstance(nv, tuple) and nv[0] == "agg"):
            continue
        vals = dict(zip(nv[4], nv[3]))
        if _is_payload(vals.get("key"), n, "key", rec) and (_is_payload(vals.get("val"), n, "val", rec)):
            return True
    # ... or into a node recycled in place in another list
    newk = set(ev[3] for ev in w.events_on if ev[1] == "recycle-key" and ev[3] != n and _is_payload(ev[5], n, "key", rec))
    newv = set(ev[3] for ev in w.events_on if ev[1] == "recycle-val" and ev[3] != n and _is_payload(ev[5], n, "val", rec))
    for m in newk & newv:
        st = w.nodes.get(m)
        if st is not None and isinstance(st.link, tuple) and isinstance(st.index, tuple):
            return True
    return False


def _ghost(w, n, short):
    st = w.nodes.get(n)
    return short == "AdaptiveCache" and st is not None and st.origin is not None and st.origin[0] == "H" and st.origin[2][-1:] and st.origin[2][-1] in GHOST_OK


def _is_payload(t, n, fld, rec):
    if t is None:
        return False
    old = rec.get(fld)
    if not (isinstance(old, tuple) and old[0] == "payload") and t == old:
        return True
    pf = payload_field(t)
    return bool(pf) and pf[0] == n and pf[1] == fld


def wtiny_r1(cx, chk, cfg, F, f):
    """window hit: returns Update(old) with old = the value moved out of the removed window node; other Update paths come from slru.put"""
    KP = ("param", 2, False)
    ok = True
    n = 0
    for f_, p, w in ntrun.walk(cx, cfg, only=lambda g: g["path"] == f["path"]):
        var, flds = c02.ret_variant(p.ret)
        if var is None:
            chk.undecide("C12.R1", f["q"], "return value is not a PutResult aggregate")
            continue
        hits = [ev for ev in w.events_on if ev[1] in ("lookup-hit", "unindex") and ev[3] is not None and c02.hit_on_key(p, ev, KP)]
        is_upd = var in ("Update", "EvictedAndUpdate")
        if bool(hits) != is_upd:
            ok = False
            chk.violation("C12.R1", "%s|hit-%s-%s" % (f["q"], bool(hits), var), "a path of %s %s the key's entry but returns %s" % (f["q"], "finds" if hits else "does not find", var),
                          f["span"]["file"], f["span"]["lo"], f["q"], None, cfg)
            continue
        if is_upd:
            n += 1
            upd = flds.get("0") if var == "Update" else flds.get("update")
            pf = payload_field(upd)
            swaps = [e for e in p.events if e["ev"] == "swap" and (e["va"] == ("param", 3, False) or e["vb"] == ("param", 3, False))]
            good = (pf is not None and pf[1] == "val" and pf[0] in [h[3] for h in hits]) or (len(swaps) == 1 and upd in (swaps[0]["va"], swaps[0]["vb"]))
            if not good:
                ok = False
                chk.violation("C12.R1", "%s|update-payload" % f["q"], "%s returns %s(%s) which is not the previously stored value of the key's entry" % (f["q"], var, fmt_val(upd)[:60]),
                              f["span"]["file"], f["span"]["lo"], f["q"], None, cfg)
    if ok:
        chk.ob("C12.R1", "%s:%s" % (cfg, f["q"]), "%d Update paths carry the old value of the hit entry" % n)


LEAVES = {"Put": [], "Update": [("0",)], "Evicted": [("key",), ("value",)], "EvictedAndUpdate": [("evicted", "0"), ("evicted", "1"), ("update",)]}


def r5(cx, chk, cfg, F):
    f = F.find("<PutResult as core::cmp::PartialEq>::eq")
    S1 = ("load", ("H", ("param", 1, True), ()), 0)
    S2 = ("load", ("H", ("param", 2, False), ()), 0)
    true_variants = set()
    ok = True
    for p in cx.paths(cfg, f["path"]):
        v1 = p.variants.get(S1)
        v2 = p.variants.get(S2)
        calls = [e for e in p.events if e["ev"] == "call" and (e["q"] or "").endswith("PartialEq::eq")]
        pairs = []
        for e in calls:
            a, b = e["args"][0], e["args"][1]
            fa = _field_path(a)
            fb = _field_path(b)
            pairs.append((fa, fb))
        rv = p.ret
        # outcome of every call but the last is forced by the path; the last one may be the return value itself
        returned_call = isinstance(rv, tuple) and rv[0] == "call"
        is_true_capable = (rv == ("const", "bool", "1")) or returned_call
        if not isinstance(v1, str) or not isinstance(v2, str):
            if is_true_capable:
                ok = False
                chk.violation("C12.R5", "eq|unmatched", "PutResult::eq can return true on a path that does not establish both variants", f["span"]["file"], f["span"]["lo"], f["q"], None, cfg)
            continue
        if v1 != v2:
            if is_true_capable:
                ok = False
                chk.violation("C12.R5", "eq|cross|%s-%s" % (v1, v2), "PutResult::eq(%s, %s) can return true: results of different variants must differ" % (v1, v2),
                              f["span"]["file"], f["span"]["lo"], f["q"], None, cfg)
            continue
        if is_true_capable:
            prior_ok = all(_call_true(p, e) for e in (calls[:-1] if returned_call else calls))
            fields = set()
            good = prior_ok
            for (fa, fb) in pairs:
                sa, sb = fa, fb
                if sa is None or sb is None or sa[1] != sb[1] or {sa[0], sb[0]} != {1, 2}:
                    good = False
                else:
                    fields.add(sa[1])
            want = set((("dc", v1),) + x if False else x for x in LEAVES[v1])
            got = set(tuple(y for y in x if not (isinstance(y, tuple) and y[0] == "dc")) for x in fields)
            if not good or got != set(LEAVES[v1]):
                ok = False
                chk.violation("C12.R5", "eq|%s|fields" % v1, "PutResult::eq on two %s values compares %s; it must compare exactly %s of both sides, pairwise" % (
                    v1, sorted(got), LEAVES[v1]), f["span"]["file"], calls[0].get("ln") if calls else f["span"]["lo"], f["q"], None, cfg)
            else:
                true_variants.add(v1)
    missing = set(LEAVES) - true_variants
    if missing:
        ok = False
        chk.violation("C12.R5", "eq|never-true|%s" % ",".join(sorted(missing)), "PutResult::eq can never return true for two %s values" % sorted(missing),
                      f["span"]["file"], f["span"]["lo"], f["q"], None, cfg)
    if ok:
        chk.ob("C12.R5", cfg + ":PutResult::eq", "same-variant arms compare every leaf field pairwise; cross-variant arms are false", {"variants": sorted(true_variants)})
    # Clone
    f = F.find("<PutResult as core::clone::Clone>::clone")
    okc = True
    seen = set()
    for p in cx.paths(cfg, f["path"]):
        v1 = p.variants.get(S1)
        rv = p.ret
        rvar = rv[2][1] if isinstance(rv, tuple) and rv[0] == "agg" and rv[1] == "adt" else None
        if rvar != v1:
            okc = False
            chk.violation("C12.R5", "clone|%s->%s" % (v1, rvar), "PutResult::clone of a %s yields %s" % (v1, rvar), f["span"]["file"], f["span"]["lo"], f["q"], None, cfg)
            continue
        seen.add(v1)
        vals = dict(zip(rv[4], rv[3]))
        for name, val in vals.items():
            src = _clone_source(p, val)
            want = (name,)
            if src is None or tuple(y for y in src[1] if not (isinstance(y, tuple) and y[0] == "dc")) != want or src[0] != 1:
                okc = False
                chk.violation("C12.R5", "clone|%s|%s" % (v1, name), "PutResult::clone builds `%s` of %s from %s, not from a clone of self.%s" % (name, v1, fmt_val(val)[:60], name),
                              f["span"]["file"], f["span"]["lo"], f["q"], None, cfg)
    if seen != set(LEAVES):
        okc = False
        chk.violation("C12.R5", "clone|variants", "PutResult::clone does not cover %s" % sorted(set(LEAVES) - seen), f["span"]["file"], f["span"]["lo"], f["q"], None, cfg)
    if okc:
        chk.ob("C12.R5", cfg + ":PutResult::clone", "rebuilds the same variant from clones of the same fields")
    copy = [im for im in F.doc["impls"] if (im["trait"] or "").endswith("marker::Copy") and im["self_head"] == "PutResult"]
    for im in copy:
        have = set((q["self"].get("n"), q["trait"]) for q in im["preds"] if q["k"] == "trait" and q["self"].get("k") == "param")
        if ("K", "core::marker::Copy") in have and ("V", "core::marker::Copy") in have:
            chk.ob("C12.R5", cfg + ":PutResult: Copy", "bounded by K: Copy, V: Copy")
        else:
            chk.violation("C12.R5", "copy|bounds", "impl Copy for PutResult lacks K: Copy / V: Copy", im["span"]["file"], im["span"]["lo"], "PutResult", None, cfg)


def _field_path(a):
    """(1|2, projection) for a reference into *self / *other"""
    if isinstance(a, tuple) and a[0] == "ref" and a[1][0] == "H" and isinstance(a[1][1], tuple) and a[1][1][0] == "param":
        return (a[1][1][1], a[1][2])
    return None


def _call_true(p, e):
    v = ("call", e["id"], e["q"])
    for fct in p.facts:
        if fct[0] == "cond" and fct[1] == v:
            return str(fct[2]) not in ("0", "false") if not isinstance(fct[2], tuple) else ("0" in [str(x) for x in fct[2][1]])
    return False


def _clone_source(p, val):
    if isinstance(val, tuple) and val[0] == "call":
        ev = [e for e in p.events if e["ev"] == "call" and e.get("id") == val[1]]
        if ev and ev[0]["q"].endswith("clone"):
            return _field_path(ev[0]["args"][0])
    return None
