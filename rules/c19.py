"""C19 - API soundness: borrows and Send/Sync markers. Type-level rules on the item facts + compile-fail witnesses (rustc is the checker)."""
import concurrent.futures
import glob
import json
import os
import subprocess
import tempfile

from .lib import api, facts as factsmod
from .lib.facts import AnalysisError

LEVEL = "proof"
EXPLANATION = (
    "Type-level property; rustc's type and borrow checker is the deciding procedure. S1 lifetime tie: every region in the return type of "
    "an exported fn/method (and of every Cache trait method) occurs in the type of the receiver. S2 exclusivity: a &mut in the output (or "
    "an iterator type that hands out &mut) requires a &mut receiver with the same region. S3: mutable iterators are not Clone/Copy and every "
    "iterator struct carries its lifetime. S4 Send/Sync: every unsafe impl of Send/Sync is compared with the bounds derived from what the "
    "type hands out (&T => T: Sync for Send and Sync; &mut T => T: Send for Send, T: Sync for Sync; owning container => each parameter), "
    "no other type has a manual impl. W: witness programs generated from the signature facts (hold-across-mutation, outlive-the-cache, "
    "double-mutable, cross-thread with Cell/Rc payloads) are compiled against the rmeta of /repo's current tree and must be rejected with "
    "the expected error code, while each twin that differs only by the offending line must compile."
)
TRUSTED_BASE = ["rustc nightly type checker / borrow checker / auto-trait solver", "signature and impl-header facts from /verif/factdump",
                "soundness of the bodies behind sound signatures is C03's subject"]

SEND = "core::marker::Send"
SYNC = "core::marker::Sync"


# ------------------------------------------------------------------ region utilities
def rkey(r):
    return (r.get("k"), r.get("n"), r.get("i"), r.get("v"))


def pretty(r):
    n = str(r[1] or "")
    if "::" in n:
        n = n.rsplit("::", 1)[1].rstrip(")")
    return n or "'_"


def regions(tt, out=None, mut_only=False):
    """[(region key, is_mut_ref)] of every region in a type tree"""
    if out is None:
        out = []
    k = tt.get("k")
    if k == "ref":
        out.append((rkey(tt["r"]), tt["m"]))
        regions(tt["t"], out)
    elif k in ("raw", "slice", "array"):
        regions(tt["t"], out)
    elif k in ("adt", "alias"):
        for a in tt["a"]:
            if a.get("k") == "region":
                out.append((rkey(a["r"]), None))
            else:
                regions(a, out)
    elif k == "tuple":
        for a in tt["ts"]:
            regions(a, out)
    return out


def adts_in(tt, out=None):
    if out is None:
        out = []
    k = tt.get("k")
    if k in ("adt", "alias"):
        out.append(tt)
        for a in tt["a"]:
            if a.get("k") != "region":
                adts_in(a, out)
    elif k in ("ref", "raw", "slice", "array"):
        adts_in(tt["t"], out)
    elif k == "tuple":
        for a in tt["ts"]:
            adts_in(a, out)
    return out


def has_mut_ref(tt):
    return any(m is True for _, m in regions(tt))


# ------------------------------------------------------------------ S rules
def iterator_items(F):
    """iterator ADT head -> output type tree of its Iterator::next"""
    out = {}
    for im in F.doc["impls"]:
        if im["trait"] and im["trait"].endswith("iter::Iterator"):
            for it in im["items"]:
                f = F.fns.get(it)
                if f and f["name"] == "next":
                    out[im["self_head"]] = f["output"]
    return out


def run(cx, chk):
    chk.rule("C19.S1", "lifetime tie: every region of an exported return type occurs in the receiver's type")
    chk.rule("C19.S2", "exclusivity: &mut (or a &mut-yielding iterator) in the output needs a &mut receiver with the same region")
    chk.rule("C19.S3", "mutable iterators are neither Clone nor Copy; iterator structs carry their lifetime parameter")
    chk.rule("C19.S4", "every unsafe impl Send/Sync has the bounds its contents justify; no other manual Send/Sync impl")
    chk.rule("C19.S5", "body-level exclusivity of the mutable iterators rests on next/next_back handing out each node once (C14.R1/R2): no iterator overrides another cursor-advancing method (nth, nth_back, advance_by, fold, ...)")
    chk.rule("C19.W", "compile-fail witnesses are rejected with the expected error code and their twins compile")
    for cfg, F in cx.cfgs():
        items = iterator_items(F)
        mut_iters = {h for h, o in items.items() if has_mut_ref(o)}
        chk.floor("C19.S3", "iterator types in %s" % cfg, len(items), 10)
        s1s2(chk, cfg, F, mut_iters)
        s3(chk, cfg, F, items, mut_iters)
        s4(chk, cfg, F, items)
        from . import c14
        c14.overrides(cx, chk, cfg, F, rule="C19.S5")
    witnesses(cx, chk)


def exported_sigs(F):
    for f in F.doc["fns"]:
        if f["kind"] in ("Fn", "AssocFn") and f.get("exported"):
            yield f, "fn"
    for t in F.doc["traits"]:
        if t["exported"]:
            for f in t["fns"]:
                yield f, "trait-decl"
    # methods of trait impls for exported types (Iterator::next etc.)
    for f in F.doc["fns"]:
        if f["kind"] == "AssocFn" and not f.get("exported"):
            im = F.impl_of(f)
            if im and im["trait"] and (im["self_head"] in F.adts and F.adts[im["self_head"]]["exported"]):
                yield f, "trait-impl"


def s1s2(chk, cfg, F, mut_iters):
    n = 0
    for f, kind in exported_sigs(F):
        if "inputs" not in f:
            continue
        out = f["output"]
        oregs = regions(out)
        if not oregs:
            continue
        n += 1
        ins = f["inputs"]
        recv = ins[0] if (f.get("has_self") and ins) else None
        recv_regs = regions(recv) if recv else []
        self_regs = set(r for r, _ in recv_regs)
        all_in = set(r for i in ins for r, _ in regions(i))
        bad = None
        for r, m in oregs:
            if r[0] == "static":
                continue
            if recv is not None:
                if r not in self_regs:
                    bad = ("S1", "region %s of the return type does not occur in the receiver's type%s" % (
                        pretty(r), " (it is tied to another argument)" if r in all_in else " (unbounded: the caller may pick any lifetime)"))
                    break
            else:
                if r not in all_in:
                    bad = ("S1", "region %s of the return type occurs in no argument (unbounded)" % (pretty(r),))
                    break
        if bad is None and recv is not None:
            # exclusivity
            need_mut = [r for r, m in oregs if m is True]
            for a in adts_in(out):
                if a["n"] in mut_iters:
                    need_mut += [rkey(x["r"]) for x in a["a"] if x.get("k") == "region"]
            recv_head = (F.impl_of(f) or {}).get("self_head", "")
            for r in need_mut:
                ok = any(rr == r and mm is True for rr, mm in recv_regs[:1]) or recv_head.lstrip("&").replace("mut ", "") in mut_iters \
                    or (recv.get("k") == "ref" and recv["m"] and rkey(recv["r"]) == r)
                # a by-value receiver that is itself `&'a mut T` (IntoIterator for &'a mut RawLRU)
                if not ok and recv.get("k") == "ref" and recv["m"] and rkey(recv["r"]) == r:
                    ok = True
                if not ok:
                    bad = ("S2", "the return type hands out mutable access with region %s but the receiver is not `&%s mut self`" % (pretty(r), pretty(r)))
                    break
        key = "%s|%s" % (f["q"], kind)
        if bad:
            chk.violation("C19." + bad[0], key, "%s: %s  [%s]" % (f["q"], bad[1], f["sig"]), f["span"]["file"], f["span"]["lo"], f["q"], None, cfg)
        else:
            chk.ob("C19.S1", cfg + ":" + key, "all output regions tied to the receiver; exclusivity ok", {"sig": f["sig"]})
    chk.floor("C19.S1", "exported signatures returning borrowed data in %s" % cfg, n, 150)


def s3(chk, cfg, F, items, mut_iters):
    for im in F.doc["impls"]:
        tr = im["trait"] or ""
        if (tr.endswith("clone::Clone") or tr.endswith("marker::Copy")) and im["self_head"] in mut_iters:
            chk.violation("C19.S3", "%s|%s" % (im["self_head"], tr), "%s implements %s: two copies would hand out aliasing &mut V" % (im["self_head"], tr),
                          im["span"]["file"], im["span"]["lo"], im["self_head"], None, cfg)
    for h in items:
        adt = F.adts.get(h)
        lts = [g for g in adt["generics"] if g["k"] == "lifetime"]
        if not lts:
            chk.violation("C19.S3", h + "|no-lifetime", "iterator %s has no lifetime parameter: it cannot be tied to the borrow of the cache" % h,
                          adt["span"]["file"], adt["span"]["lo"], h, None, cfg)
        else:
            chk.ob("C19.S3", "%s:%s" % (cfg, h), "carries %s; %s" % (lts[0]["n"], "not Clone" if h in mut_iters else "shared"))


def requirements(F, head, items, depth=0):
    """{param: set('shared'|'mut'|'own')} what a value of this ADT lets its holder reach"""
    adt = F.adts.get(head)
    req = {}
    if adt is None or depth > 4:
        return req
    if head in items:
        def walk(tt, mode):
            k = tt.get("k")
            if k == "ref":
                walk(tt["t"], "mut" if tt["m"] else "shared")
            elif k == "param":
                req.setdefault(tt["n"], set()).add(mode)
            elif k == "tuple":
                for a in tt["ts"]:
                    walk(a, mode)
            elif k == "adt":
                for a in tt["a"]:
                    if a.get("k") != "region":
                        walk(a, mode)
            # k == "alias" (`<Self as Iterator>::Item` of the projecting wrappers): what they hand out is a part of what the
            # wrapped iterator hands out, which the field recursion below accounts for
        walk(items[head], "own")
    for fld in adt["variants"][0]["fields"]:
        tt = fld["tt"]
        if tt.get("k") == "adt" and tt["n"] in F.adts and tt["n"] != head:
            for p, ms in requirements(F, tt["n"], items, depth + 1).items():
                req.setdefault(p, set()).update(ms)
    return req


def s4(chk, cfg, F, items):
    manual = {}
    for im in F.doc["impls"]:
        if im["trait"] in (SEND, SYNC):
            manual.setdefault(im["self_head"], {})[im["trait"]] = im
    n = 0
    for head, impls in manual.items():
        adt = F.adts.get(head)
        tparams = [g["n"] for g in adt["generics"] if g["k"] == "type"] if adt else []
        if head in items or any(head == h for h in items):
            req = requirements(F, head, items)
            for tr, im in impls.items():
                n += 1
                have = set((p["self"].get("n"), p["trait"]) for p in im["preds"] if p["k"] == "trait" and p["self"].get("k") == "param")
                missing = []
                for p, modes in req.items():
                    need = set()
                    for m in modes:
                        if m == "shared":
                            need.add(SYNC)
                        elif m == "mut":
                            need.add(SEND if tr == SEND else SYNC)
                        else:
                            need.add(tr)
                    for t in need:
                        if (p, t) not in have:
                            missing.append("%s: %s" % (p, t.split("::")[-1]))
                if missing:
                    chk.violation("C19.S4", "%s|%s" % (head, tr.split("::")[-1]), "unsafe impl %s for %s lacks the bound(s) %s: the iterator hands out %s" % (
                        tr.split("::")[-1], head, ", ".join(sorted(missing)), {p: sorted(m) for p, m in req.items()}), im["span"]["file"], im["span"]["lo"], head, None, cfg)
                else:
                    chk.ob("C19.S4", "%s:%s|%s" % (cfg, head, tr.split("::")[-1]), "bounds cover %s" % {p: sorted(m) for p, m in req.items()})
        elif head == api.CACHES["RawLRU"]:
            for tr, im in impls.items():
                n += 1
                have = set((p["self"].get("n"), p["trait"]) for p in im["preds"] if p["k"] == "trait" and p["self"].get("k") == "param")
                missing = ["%s: %s" % (p, tr.split("::")[-1]) for p in tparams if (p, tr) not in have]
                if missing:
                    chk.violation("C19.S4", "%s|%s" % (head, tr.split("::")[-1]), "unsafe impl %s for RawLRU lacks %s (an owning container needs every parameter to be %s; &RawLRU reaches &E through clone)" % (
                        tr.split("::")[-1], ", ".join(missing), tr.split("::")[-1]), im["span"]["file"], im["span"]["lo"], head, None, cfg)
                else:
                    chk.ob("C19.S4", "%s:%s|%s" % (cfg, head, tr.split("::")[-1]), "every type parameter bounded by %s" % tr.split("::")[-1])
        else:
            for tr, im in impls.items():
                chk.violation("C19.S4", "%s|%s|unexpected" % (head, tr.split("::")[-1]), "manual impl of %s for %s: only RawLRU and the iterator types may carry one (auto traits must decide the rest)" % (
                    tr.split("::")[-1], head), im["span"]["file"], im["span"]["lo"], head, None, cfg)
    chk.floor("C19.S4", "manual Send/Sync impls in %s" % cfg, n, 22)


# ------------------------------------------------------------------ witnesses
TYPES = {
    "lru::raw::RawLRU": ("caches::RawLRU<u64, String>", "caches::RawLRU::new(4).unwrap()"),
    "lru::segmented::SegmentedCache": ("caches::SegmentedCache<u64, String>", "caches::SegmentedCache::new(2, 2).unwrap()"),
    "lru::two_queue::TwoQueueCache": ("caches::TwoQueueCache<u64, String>", "caches::TwoQueueCache::new(4).unwrap()"),
    "lru::adaptive::AdaptiveCache": ("caches::AdaptiveCache<u64, String>", "caches::AdaptiveCache::new(4).unwrap()"),
    "lfu::wtinylfu::WTinyLFUCache": ("caches::WTinyLFUCache<u64, String>", "caches::WTinyLFUCache::with_sizes(1, 2, 2, 10).unwrap()"),
}
PRELUDE = "#![allow(unused)]\nuse caches::{Cache, ResizableCache};\nfn use_it<T>(_t: T) {}\n"


def arg_recipe(tt):
    k = tt.get("k")
    if k == "param":
        return {"K": "1u64", "V": "String::new()"}.get(tt["n"])
    if k == "ref" and tt["t"].get("k") == "param":
        return "&1u64"
    if k == "prim" and tt.get("n") == "usize":
        return "1usize"
    return None


def gen_method_probes(F):
    """[(name, kind, bad_src, good_src, expected_codes)]"""
    probes = []
    items = iterator_items(F)
    mut_iters = {h for h, o in items.items() if has_mut_ref(o)}
    for f in F.doc["fns"]:
        if f["kind"] != "AssocFn" or not f.get("has_self"):
            continue
        im = F.impl_of(f)
        if not im or im["self_head"] not in TYPES:
            continue
        if not (f.get("exported") or im["trait"] == api.CACHE_TRAIT):
            continue
        if not regions(f["output"]):
            continue
        args = [arg_recipe(t) for t in f["inputs"][1:]]
        if any(a is None for a in args):
            continue
        ty, ctor = TYPES[im["self_head"]]
        call = "c.%s(%s)" % (f["name"], ", ".join(args))
        head = PRELUDE + "fn mk() -> %s { %s }\n" % (ty, ctor)
        base = "%s::%s" % (im["self_head"].split("::")[-1], f["name"])
        bad = head + "pub fn probe() { let mut c = mk(); let r = %s; c.purge(); use_it(r); }\n" % call
        good = head + "pub fn probe() { let mut c = mk(); let r = %s; use_it(r); c.purge(); }\n" % call
        probes.append((base + "#hold", "hold-across-mutation", bad, good, ("E0499", "E0502", "E0505", "E0506")))
        bad = head + "pub fn probe() { let r; { let mut c = mk(); r = %s; } use_it(r); }\n" % call
        good = head + "pub fn probe() { { let mut c = mk(); let r = %s; use_it(r); } }\n" % call
        probes.append((base + "#outlive", "outlive-the-cache", bad, good, ("E0597", "E0515", "E0505", "E0716")))
        outs_mut = has_mut_ref(f["output"]) or any(a["n"] in mut_iters for a in adts_in(f["output"]))
        if outs_mut:
            bad = head + "pub fn probe() { let mut c = mk(); let a = %s; let b = %s; use_it(a); use_it(b); }\n" % (call, call)
            good = head + "pub fn probe() { let mut c = mk(); let a = %s; use_it(a); let b = %s; use_it(b); }\n" % (call, call)
            probes.append((base + "#double-mut", "double-mutable", bad, good, ("E0499",)))
    return probes


ITER_CTORS = ["iter", "iter_lru", "iter_mut", "iter_lru_mut", "keys", "keys_lru", "values", "values_lru", "values_mut", "values_lru_mut"]


def gen_thread_probes():
    probes = []
    head = PRELUDE + "use std::cell::Cell; use std::rc::Rc;\nfn is_send<T: Send>(_: &T) {}\nfn is_sync<T: Sync>(_: &T) {}\n"
    for m in ITER_CTORS:
        for trait in ("send", "sync"):
            bad = head + "pub fn probe() { let mut c: caches::RawLRU<u64, Cell<u32>> = caches::RawLRU::new(4).unwrap(); let it = c.%s(); is_%s(&it); }\n" % (m, trait)
            good = head + "pub fn probe() { let mut c: caches::RawLRU<u64, u32> = caches::RawLRU::new(4).unwrap(); let it = c.%s(); is_%s(&it); }\n" % (m, trait)
            if m in ("iter_mut", "iter_lru_mut", "values_mut", "values_lru_mut") and trait == "send":
                # &mut V needs V: Send only: Cell<u32> is Send, so use Rc for the negative case
                bad = bad.replace("Cell<u32>", "Rc<u32>")
            probes.append(("RawLRU::%s#%s" % (m, trait), "cross-thread", bad, good, ("E0277",)))
        # keys must be Sync as well
        bad = head + "pub fn probe() { let mut c: caches::RawLRU<Rc<u8>, u32> = panic!(); let it = c.%s(); is_send(&it); }\n" % m
        good = head + "pub fn probe() { let mut c: caches::RawLRU<u8, u32> = panic!(); let it = c.%s(); is_send(&it); }\n" % m
        probes.append(("RawLRU::%s#send-key" % m, "cross-thread", bad, good, ("E0277",)))
    for short, ty in (("RawLRU", "caches::RawLRU<u64, %s>"), ("SegmentedCache", "caches::SegmentedCache<u64, %s>"), ("TwoQueueCache", "caches::TwoQueueCache<u64, %s>"),
                      ("AdaptiveCache", "caches::AdaptiveCache<u64, %s>"), ("WTinyLFUCache", "caches::WTinyLFUCache<u64, %s>")):
        for trait, payload in (("send", "Rc<u32>"), ("sync", "Cell<u32>")):
            bad = head + "pub fn probe(c: &%s) { is_%s(c); }\n" % (ty % payload, trait)
            good = head + "pub fn probe(c: &%s) { is_%s(c); }\n" % (ty % "u32", trait)
            probes.append(("%s#%s" % (short, trait), "cross-thread", bad, good, ("E0277",)))
    return probes


def compile_probe(args):
    name, src, rmeta, deps, wdir = args
    path = os.path.join(wdir, name.replace("::", "_").replace("#", "_").replace("@", "_").replace("-", "_") + ".rs")
    with open(path, "w") as fh:
        fh.write(src)
    cmd = ["rustc", "+nightly", "--edition", "2021", "--crate-type", "lib", "--emit=metadata", "--error-format=json", "-o", path + ".rmeta",
           "--extern", "caches=" + rmeta, "-L", "dependency=" + deps, path]
    r = subprocess.run(cmd, capture_output=True, text=True)
    codes = []
    for line in r.stderr.splitlines():
        try:
            d = json.loads(line)
        except ValueError:
            continue
        if d.get("level") == "error" and d.get("code"):
            codes.append(d["code"]["code"])
        elif d.get("level") == "error" and not d.get("code") and "aborting" not in d.get("message", ""):
            codes.append("E????:" + d.get("message", "")[:80])
    return name, r.returncode, codes


def witnesses(cx, chk):
    F = cx.std
    deps = os.path.join(factsmod.CACHE, "target-std", "debug", "deps")
    rm = sorted(glob.glob(os.path.join(deps, "libcaches-*.rmeta")), key=os.path.getmtime)
    if not rm:
        raise AnalysisError("no rmeta of the caches crate in %s" % deps)
    rmeta = rm[-1]
    probes = gen_method_probes(F) + gen_thread_probes()
    chk.floor("C19.W", "witness probes generated", len(probes), 250)
    if cx.tier == "quick":
        # smoke set: every cross-thread probe + every 6th method probe (the S rules cover the signatures exhaustively)
        sel = [p for i, p in enumerate(probes) if p[1] == "cross-thread" or i % 6 == 0]
    else:
        sel = probes
    wdir = tempfile.mkdtemp(prefix="c19w-", dir=factsmod.CACHE)
    jobs = []
    for name, kind, bad, good, codes in sel:
        jobs.append((name + "@bad", bad, rmeta, deps, wdir))
        jobs.append((name + "@twin", good, rmeta, deps, wdir))
    results = {}
    with concurrent.futures.ThreadPoolExecutor(max_workers=16) as ex:
        for name, rc, codes in ex.map(compile_probe, jobs):
            results[name] = (rc, codes)
    subprocess.run(["rm", "-rf", wdir])
    for name, kind, bad, good, exp in sel:
        rc_b, codes_b = results[name + "@bad"]
        rc_t, codes_t = results[name + "@twin"]
        if rc_t != 0:
            chk.undecide("C19.W", name, "positive twin does not compile (%s): the probe recipe is wrong" % codes_t[:3])
            continue
        if rc_b == 0:
            chk.violation("C19.W", name, "%s witness COMPILES: safe code can %s" % (kind, {
                "hold-across-mutation": "keep the returned reference alive across a later mutation of the cache",
                "outlive-the-cache": "keep the returned reference alive past the cache's lifetime",
                "double-mutable": "hold two live mutable references to the same value",
                "cross-thread": "move/share this value across threads although its contents are not Send/Sync"}[kind]),
                "src/lru/raw.rs", None, name.split("#")[0], [bad.strip().split("\n")[-1]], "std")
        elif not any(c in exp for c in codes_b):
            chk.undecide("C19.W", name, "witness rejected with %s, expected one of %s" % (codes_b[:3], exp))
        else:
            chk.ob("C19.W", name, "rejected with %s; twin compiles" % [c for c in codes_b if c in exp][0], {"kind": kind, "probe": bad.strip().split("\n")[-1]})
    chk.count("witness_programs_compiled", len(jobs))
