"""C16 - a clone is observationally identical to the original, then independent."""
from .lib import api, absint, composite
from .lib.absint import fmt_val, fmt_loc, subterms
from .lib.facts import AnalysisError
from .lib.routing import outer_enters

LEVEL = "other"
EXPLANATION = (
    "R1 field-wise clone: every Clone impl of the crate (hand-written and derived, both configurations) must rebuild Self with every field "
    "taken from the same field of self (a copy, or <T as Clone>::clone applied to a reference to that field) - checked against the struct "
    "definition from the item facts on the abstract return value of clone(). R2 order-preserving RawLRU::clone: the source entries are "
    "enumerated from the recency list least-recent-first (an LRU-order iterator advanced with next, or an MRU-order one advanced with "
    "next_back), each (k.clone(), v.clone()) pair is inserted with put (which attaches at the MRU end), and cap / hasher / callback of the "
    "new cache come from self. R3 independence: head, tail and map of the clone are freshly constructed, no node pointer of self is stored "
    "in it. Observational equivalence under all futures follows from equal state plus determinism (C17) and is not itself executed."
    " R1 also requires that clone() passes nothing to a function of this crate by mutable reference: a copied field goes into the clone as it is."
)
TRUSTED_BASE = ["MIR facts", "<T as Clone>::clone of field types outside the crate (Vec, arrays, hashers) is a faithful copy"]


class NoCloneInline(absint.DefaultPolicy):
    """inner Clone::clone calls stay opaque so that the provenance of each field is visible"""
    def inline(self, interp, fr, info):
        return not (info["q"].endswith("Clone>::clone") or info["q"].endswith("Clone::clone"))


def run(cx, chk):
    chk.rule("C16.R1", "field-wise clone: each field of the clone derives from the same field of self")
    chk.rule("C16.R2", "RawLRU::clone re-inserts the entries in recency order (least-recent first, via put); cap/hasher/callback from self")
    chk.rule("C16.R4", "clone_from is the default (`*self = source.clone()`) wherever it is defined: clone() is the only way a copy is produced")
    chk.rule("C16.R3", "independence: the clone's sentinels and index are fresh; no node pointer of self flows into it")
    for cfg, F in cx.cfgs():
        n = 0
        for im in F.doc["impls"]:
            if not (im["trait"] or "").endswith("clone::Clone"):
                continue
            adt = F.adts.get(im["self_head"])
            if adt is None or adt["kind"] != "Struct":
                continue
            fields = [f["n"] for f in adt["variants"][0]["fields"]]
            fn = [F.fns[i] for i in im["items"] if i in F.fns and F.fns[i]["name"] == "clone"]
            if not fn:
                continue
            f = fn[0]
            if im["self_head"] == api.CACHES["RawLRU"]:
                rawlru_clone(cx, chk, cfg, F, f)
                continue
            n += 1
            paths = cx.paths(cfg, f["path"], policy=NoCloneInline(), tag="noclone")
            ok = True
            for p in paths:
                rv = p.ret
                if isinstance(rv, tuple) and rv[0] == "load" and rv[1] == ("H", ("param", 1, True), ()):
                    continue   # `*self`: a bitwise copy of the whole value
                if not (isinstance(rv, tuple) and rv[0] == "agg" and rv[1] == "adt" and rv[2][0] == im["self_head"]):
                    chk.undecide("C16.R1", f["q"], "clone does not return a struct literal: %s" % fmt_val(rv)[:80])
                    ok = False
                    continue
                vals = dict(zip(rv[4], rv[3]))
                ftys = {x["n"]: x["ty"] for x in adt["variants"][0]["fields"]}
                for fld in fields:
                    v = vals.get(fld)
                    if "PhantomData" in ftys[fld]:
                        continue   # zero-sized marker
                    src = field_source(p, v)
                    if src != fld:
                        ok = False
                        chk.violation("C16.R1", "%s|%s" % (f["q"], fld), "clone of %s builds field `%s` from %s instead of from self.%s" % (
                            im["self_head"], fld, ("self." + src) if src else fmt_val(v)[:60], fld), f["span"]["file"], f["span"]["lo"], f["q"], None, cfg)
            # a copied field goes into the clone as it is: clone() hands no value to a function of this crate by mutable reference
            # (`let mut t = self.t.clone(); if ..{ t.clear() }` passes the field-source test above and still hands out different state)
            for p in paths:
                for e in p.events:
                    if e["ev"] not in ("call", "enter"):
                        continue
                    g = F.fns.get(e.get("def"))
                    if g and any(isinstance(t, dict) and t.get("k") == "ref" and t.get("m") for t in g.get("inputs", [])):
                        ok = False
                        chk.violation("C16.R1", "%s|post-processed|%s" % (f["q"], g["q"]), "clone of %s passes a value to %s by mutable reference: the state it hands out is not the copied state" % (
                            im["self_head"], g["q"]), f["span"]["file"], e.get("ln") or f["span"]["lo"], f["q"], None, cfg)
                        break
                else:
                    continue
                break
            if ok:
                chk.ob("C16.R1", "%s:%s" % (cfg, f["q"]), "%d fields each cloned from the same field" % len(fields), {"fields": fields})
        chk.floor("C16.R1", "struct Clone impls in %s" % cfg, n, 6)
        # R4: Clone::clone_from. The default is `*self = source.clone()`; an override produces its copy by other means and has to be
        # the same copy. Only the default shape is accepted: exactly one Clone::clone(source) whose result is stored into *self.
        n4 = 0
        for im in F.doc["impls"]:
            if not (im["trait"] or "").endswith("clone::Clone"):
                continue
            for i in im["items"]:
                fcf = F.fns.get(i)
                if not fcf or fcf["name"] != "clone_from" or F.body(i) is None:
                    continue
                n4 += 1
                good = True
                for p in cx.paths(cfg, fcf["path"], policy=NoCloneInline(), tag="noclone"):
                    cl = [e for e in p.events if e["ev"] == "call" and (e["q"] or "").endswith(("Clone>::clone", "Clone::clone")) and e["args"] and e["args"][0] == ("param", 2, False)]
                    st = [e for e in p.events if e["ev"] == "store" and e["loc"] == ("H", ("param", 1, True), ())]
                    if not (len(cl) == 1 and len(st) == 1 and st[0]["val"] == ("call", cl[0]["id"], cl[0]["q"])):
                        good = False
                if good:
                    chk.ob("C16.R4", "%s:%s" % (cfg, fcf["q"]), "*self = source.clone()")
                else:
                    chk.violation("C16.R4", "%s|clone_from" % fcf["q"], "%s overrides clone_from with something other than `*self = source.clone()`: the copy it builds (under self's old capacity / callback / contents) is not shown to be the one clone() builds" % fcf["q"],
                                  fcf["span"]["file"], fcf["span"]["lo"], fcf["q"], None, cfg)
        chk.ob("C16.R4", cfg + ":overrides", "%d clone_from overrides" % n4)


def field_source(p, v):
    """name of the self field a cloned value derives from (None if it does not)"""
    if isinstance(v, tuple) and v[0] == "load":
        loc = v[1]
        if loc[0] == "H" and loc[1] == ("param", 1, True) and len(loc[2]) >= 1:
            return loc[2][0]
    if isinstance(v, tuple) and v[0] == "call":
        ev = [e for e in p.events if e["ev"] == "call" and e.get("id") == v[1]]
        if ev and (ev[0]["q"].endswith("Clone>::clone") or ev[0]["q"].endswith("Clone::clone") or ev[0]["q"].endswith("::clone")):
            a = ev[0]["args"][0]
            if isinstance(a, tuple) and a[0] == "ref" and a[1][0] == "H" and a[1][1] == ("param", 1, True) and a[1][2]:
                return a[1][2][0]
    if isinstance(v, tuple) and v[0] == "agg" and v[1] in ("adt",) and not v[3]:
        return None
    if isinstance(v, tuple) and v[0] == "proj":
        return field_source(p, v[1])
    if isinstance(v, tuple) and v[0] == "agg" and v[1] == "adt" and v[2][0].endswith("PhantomData"):
        return None
    return None


def rawlru_clone(cx, chk, cfg, F, f):
    paths = cx.paths(cfg, f["path"])
    RAW = api.CACHES["RawLRU"]
    ok = True
    n_put_paths = 0
    for p in paths:
        rv = p.ret
        if isinstance(rv, tuple) and rv[0] == "moved":
            rv = rv[1]
        if not (isinstance(rv, tuple) and rv[0] == "agg" and rv[1] == "adt" and rv[2][0] == RAW):
            chk.undecide("C16.R2", f["q"], "clone does not return a constructed RawLRU: %s" % fmt_val(rv)[:80])
            return
        vals = dict(zip(rv[4], rv[3]))
        # R3: fresh sentinels + fresh map
        for fld in ("head", "tail"):
            if not (isinstance(vals[fld], tuple) and vals[fld][0] == "alloc"):
                ok = False
                chk.violation("C16.R3", "%s|%s" % (f["q"], fld), "the clone's %s is %s, not a freshly allocated sentinel" % (fld, fmt_val(vals[fld])[:60]),
                              f["span"]["file"], f["span"]["lo"], f["q"], None, cfg)
        m = vals["map"]
        if not (isinstance(m, tuple) and m[0] == "call" and "HashMap" in m[2] and m[2].split("::")[-1].startswith(("with_", "new", "default"))):
            ok = False
            chk.violation("C16.R3", "%s|map" % f["q"], "the clone's index is %s, not a freshly constructed map" % fmt_val(m)[:60], f["span"]["file"], f["span"]["lo"], f["q"], None, cfg)
        else:
            # hasher from self
            mk = [e for e in p.events if e["ev"] == "call" and e.get("id") == m[1]]
            hs = mk[0]["args"][-1] if mk else None
            if field_source(p, hs) != "map":
                # hasher obtained through self.map.hasher().clone()
                good = False
                if isinstance(hs, tuple) and hs[0] == "call":
                    ce = [e for e in p.events if e["ev"] == "call" and e.get("id") == hs[1]]
                    if ce and ce[0]["q"].endswith("clone"):
                        a = ce[0]["args"][0]
                        if isinstance(a, tuple) and a[0] == "call":
                            he = [e for e in p.events if e["ev"] == "call" and e.get("id") == a[1]]
                            if he and he[0]["q"].endswith("::hasher"):
                                h0 = he[0]["args"][0]
                                good = isinstance(h0, tuple) and h0[0] == "ref" and h0[1][0] == "H" and h0[1][1] == ("param", 1, True) and h0[1][2] == ("map",)
                if not good:
                    ok = False
                    chk.violation("C16.R2", "%s|hasher" % f["q"], "the clone's hasher does not come from self.map.hasher()", f["span"]["file"], f["span"]["lo"], f["q"], None, cfg)
        capv = vals["cap"]
        if not (isinstance(capv, tuple) and capv[0] == "load" and capv[1] == ("H", ("param", 1, True), ("cap",))):
            ok = False
            chk.violation("C16.R2", "%s|cap" % f["q"], "the clone's cap is %s, not self.cap" % fmt_val(capv)[:60], f["span"]["file"], f["span"]["lo"], f["q"], None, cfg)
        if field_source(p, vals["on_evict"]) != "on_evict":
            ok = False
            chk.violation("C16.R2", "%s|on_evict" % f["q"], "the clone's callback is %s, not a clone of self.on_evict" % fmt_val(vals["on_evict"])[:60],
                          f["span"]["file"], f["span"]["lo"], f["q"], None, cfg)
        # R2: enumeration order
        iters = [e for e in outer_enters(p, lambda e: e["q"].startswith(RAW + "::")) if isinstance(e["args"][0] if e["args"] else None, tuple)
                 and e["args"][0] == ("param", 1, True) and e["q"].startswith(RAW + "::") and ("iter" in e["q"].split("::")[-1] or e["q"].split("::")[-1] in ("keys", "values", "keys_lru", "values_lru"))]
        nexts = [e for e in p.events if e["ev"] == "enter" and e["q"].split("::")[-1] in ("next", "next_back") and "Iter" in e["q"]]
        puts = [e for e in p.events if e["ev"] == "enter" and e["q"].endswith("::put") and RAW in e["q"]]
        if puts:
            n_put_paths += 1
            for e in nexts:
                it = e["q"]
                lru_order = ("LRUIter" in it and it.endswith("::next")) or ("MRUIter" in it and it.endswith("::next_back"))
                if not lru_order:
                    ok = False
                    chk.violation("C16.R2", "%s|order" % f["q"], "clone enumerates the source with %s: entries are re-inserted most-recent first, which reverses the recency order of the clone" % it,
                                  f["span"]["file"], e.get("ln"), f["q"], None, cfg)
            if not nexts:
                ok = False
                chk.violation("C16.R2", "%s|no-list-walk" % f["q"], "clone inserts entries that were not enumerated from the recency list", f["span"]["file"], f["span"]["lo"], f["q"], None, cfg)
            for e in puts:
                recv = e["args"][0]
                if not (isinstance(recv, tuple) and recv[0] == "ref" and recv[1][0] == "L"):
                    ok = False
                    chk.violation("C16.R2", "%s|put-target" % f["q"], "entries are put into %s, not into the new cache" % fmt_val(recv)[:60], f["span"]["file"], e.get("ln"), f["q"], None, cfg)
                for idx, fld in ((1, "key"), (2, "val")):
                    a = e["args"][idx]
                    good = False
                    if isinstance(a, tuple) and a[0] == "call":
                        ce = [x for x in p.events if x["ev"] == "call" and x.get("id") == a[1]]
                        if ce and ce[0]["q"].endswith("clone"):
                            src = ce[0]["args"][0]
                            good = isinstance(src, tuple) and src[0] == "ref" and src[1][0] == "H" and src[1][2][-1:] == (fld,)
                    if not good:
                        ok = False
                        chk.violation("C16.R2", "%s|put-%s" % (f["q"], fld), "the %s put into the clone is %s, not a clone of a source node's %s" % (fld, fmt_val(a)[:60], fld),
                                      f["span"]["file"], e.get("ln"), f["q"], None, cfg)
    chk.floor("C16.R2", "clone paths that copy entries (%s)" % cfg, n_put_paths, 1)
    if ok:
        chk.ob("C16.R2", "%s:%s" % (cfg, f["q"]), "%d paths: LRU-order walk, put into the new cache, cap/hasher/callback from self" % len(paths))
        chk.ob("C16.R3", "%s:%s" % (cfg, f["q"]), "fresh sentinels and index")
