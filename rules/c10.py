"""C10 - WTinyLFUCache: window -> TinyLFU admission filter -> segmented main cache."""
from .lib import api, ntrun, composite, lin
from .lib.routing import View, cond_facts, norm_cmp, outer_enters, SELF
from .lib.absint import fmt_val, subterms
from .lib.nt import payload_field
from .lib.effects import loc_root
from .lib.facts import AnalysisError

LEVEL = "other"
EXPLANATION = (
    "Routing conformance on every path of the fully inlined MIR (both configurations). put: a window hit frees the key's window node, returns "
    "its old value as Update, demotes protected's LRU entry into the window iff protected.len() >= protected_size, and places the key in "
    "protected; a main-cache hit touches the main cache only; a miss inserts into the window. When the window pushes an entry out (the "
    "candidate) the path must carry the test main.len() < main.cap() in its canonical shape (both segment lengths against both segment "
    "bounds): if it holds the candidate is admitted into probationary without consulting the estimator; otherwise TinyLFU::lt(candidate key, "
    "probationary LRU key) is consulted - first operand derived from the window's evictee, second from (*probationary.tail).prev - and the "
    "candidate is handed back as Evicted exactly on lt's true edge, admitted on its false edge. R3: every path of get and get_mut, hit or "
    "miss, enters TinyLFU::increment exactly once with the caller's key before any lookup; no other Cache method stores into the estimator "
    "except purge, which enters TinyLFU::clear on every path. R4: the estimator is sized window + protected + probationary. The estimator's "
    "verdicts themselves are numeric (C11) and not decided here."
    " R8: get and get_mut re-link the entry they hit in the window and in both main segments (a peek in their place is reported)."
)
TRUSTED_BASE = ["as C03", "TinyLFU::lt compares the two estimates with < (C11.R4)"]

ADT = api.CACHES["WTinyLFUCache"]
W, PB, PT = ("lru",), ("slru", "probationary"), ("slru", "protected")


def lenof(x):
    return ("len", ("H", SELF, x + ("map",)), 0)


def run(cx, chk):
    chk.rule("C10.R1", "put routing: window hit / main hit / miss; free admission iff main.len() < main.cap() (canonical shape)")
    chk.rule("C10.R2", "admission predicate: rejection exactly on the true edge of lt(candidate key, probationary LRU key)")
    chk.rule("C10.R3", "access recording: exactly one increment(k) on every get/get_mut path before the lookups; only get/get_mut/purge touch the estimator; purge clears it")
    chk.rule("C10.R4", "the estimator is sized window + protected + probationary")
    chk.rule("C10.R5", "non-use operations (peek*, contains, len, per-segment accessors, ...) reach no mutation: they neither promote nor refresh")
    chk.rule("C10.R6", "purge empties every retained list of the cache")
    chk.rule("C10.R7", "'estimated frequency is strictly lower': TinyLFU::lt(a, b) returns estimate(a) < estimate(b) on every path (engine of C11.R4), "
                       "and the bound the demotion guard reads (protected_cap) is the protected segment's own bound in constructors, clones and builders")
    chk.rule("C10.R8", "get / get_mut re-link the entry they hit, in the window and in both main segments")
    from . import c11
    from .lib.report import Relabel
    for cfg, F in cx.cfgs():
        c11.r3r4(cx, Relabel(chk, {"C11.R4": "C10.R7"}, keep=lambda key: key.split(":")[-1] == "lt" or key == "lt"), cfg, F)
        composite.clone_bounds(cx, chk, cfg, F, "C10.R7", only=("SegmentedCache", "WTinyLFUCache"))
        composite.builder_setters(cx, chk, cfg, F, "C10.R7", only=("SegmentedCacheBuilder", "WTinyLFUCacheBuilder"))
        composite.role_wiring(cx, chk, cfg, F, "C10.R7")
        accessor_bounds(cx, chk, cfg, F)
        composite.policy_hygiene(cx, chk, cfg, F, "WTinyLFUCache", "C10.R5", "C10.R6")
        put(cx, chk, cfg, F)
        recording(cx, chk, cfg, F)
        use_refresh(cx, chk, cfg, F)
        ctor(cx, chk, cfg, F)


def put(cx, chk, cfg, F):
    f = composite.cache_method(F, ADT, "put")
    counts = {}
    ok = True

    def bad(rule, what, msg, ln=None):
        nonlocal ok
        ok = False
        chk.violation(rule, "%s|%s" % (f["q"], what), "%s: %s" % (f["q"], msg), f["span"]["file"], ln or f["span"]["lo"], f["q"], None, cfg)
    for f_, p, w in ntrun.walk(cx, cfg, only=lambda g: g["path"] == f["path"]):
        v = View(p, w)
        facts = cond_facts(p)
        if W in v.key_hits:
            cls = "window-hit"
            n = v.key_hits[W]
            if v.ret_variant() != "Update":
                bad("C10.R1", "window-hit-ret", "a put on a window-resident key returns %s" % v.ret_variant())
            # demotion
            full = None
            for c, t, e in facts:
                # the test is made by the cache itself: in `put` or in one of its own helpers (not inside the segmented cache's operations)
                if e["depth"] != 0 and "WTinyLFUCache" not in (F.fns.get(e["fn"], {}).get("q") or ""):
                    continue
                r = norm_cmp(c, t, lambda x: isinstance(x, tuple) and x[0] == "len" and ("len", x[1], 0) == lenof(PT))
                if r and r[2] in (("load", ("H", SELF, ("slru", "protected_size")), 0), ("load", ("H", SELF, ("slru", "protected", "cap")), 0)):
                    if r[0] in ("Ge", "Lt"):
                        full = r[0] == "Ge"
                    else:
                        bad("C10.R1", "window-hit-test-relation", "protected.len() is compared with protected_cap using `%s` (the policy demotes iff len >= cap)" % r[0])
            dem = [x for x in v.of("unindex", lst=PT) if x[3] != v.key_hits.get(PT)]
            if full is None:
                bad("C10.R1", "window-hit-no-test", "a window hit does not test protected.len() >= protected_cap before placing the key in protected")
            elif full and len(dem) != 1:
                bad("C10.R1", "window-hit-no-demotion", "protected is full but %d entries are demoted into the window (must be exactly its LRU entry)" % len(dem))
            elif not full and dem:
                bad("C10.R1", "window-hit-demotion-not-full", "an entry is demoted from protected although it is not full")
            for x in dem:
                src = v.victim_source(x[3])
                if src != ("tail", "prev", PT):
                    bad("C10.R1", "window-hit-demotes-wrong-end", "the demoted entry is not protected's least-recent one (%s)" % (src,), p.events[x[0]].get("ln"))
                if not migrated_to(p, w, v, x[3], W):
                    bad("C10.R1", "window-hit-demotion-lost", "the entry taken out of protected is not put into the window", p.events[x[0]].get("ln"))
            # key ends in protected
            homes = [v.final(x[3])[:2] for x in v.of("index", lst=PT)] + ([v.final(v.key_hits[PT])[:2]] if PT in v.key_hits else [])
            if not homes or any(h != (PT, PT) for h in homes):
                bad("C10.R1", "window-hit-home", "after a put on a window-resident key the key is not in the protected segment (%s)" % homes)
        elif PB in v.key_hits or PT in v.key_hits:
            cls = "main-hit"
            if [x for x in v.of("index", "unindex", "attach", "detach", "alloc", "rebox") if x[2] == W]:
                bad("C10.R1", "main-hit-window", "a put on a main-cache key changes the window")
        else:
            cls = "miss"
            fresh = [x[3] for x in v.of("alloc")] + [x[3] for x in v.of("recycle-key")]
            if not any(v.final(x)[:2] == (W, W) for x in fresh):
                bad("C10.R1", "miss-home", "a brand-new key does not enter the window")
            cand = [x for x in v.of("unindex", lst=W)]
            est = outer_enters(p, lambda e: "TinyLFU::" in (e["q"] or ""), with_index=True)   # estimator calls, wherever they are made from
            lt = [(i, e) for i, e in est if e["q"].endswith("TinyLFU::lt")]
            other_cmp = [e for i, e in est if e["q"].split("::")[-1] in ("le", "gt", "ge", "eq")]
            if other_cmp:
                bad("C10.R2", "wrong-comparison", "admission uses TinyLFU::%s; the candidate is rejected only if its estimate is strictly lower (lt)" % other_cmp[0]["q"].split("::")[-1], other_cmp[0].get("ln"))
            if not cand:
                if lt:
                    bad("C10.R2", "lt-without-candidate", "the estimator is consulted although the window pushed nothing out")
                counts[cls + "-room"] = counts.get(cls + "-room", 0) + 1
                continue
            cn = cand[0][3]
            src = v.victim_source(cn)
            if src != ("tail", "prev", W):
                bad("C10.R1", "candidate-end", "the entry the window pushes out is not its least-recent one (%s)" % (src,))
            full = main_full(facts)
            if full is None:
                bad("C10.R1", "no-main-room-test", "the candidate is routed without the test main.len() < main.cap() over both segments (free admission while the main cache has room)",
                    p.events[cand[0][0]].get("ln"))
                continue
            admitted = migrated_to(p, w, v, cn, PB) or migrated_to(p, w, v, cn, PT)
            rejected = is_candidate_ret(p, w, cn)
            if not full:
                cls = "miss-admit-free"
                if lt:
                    bad("C10.R1", "lt-while-room", "the estimator is consulted although the main cache has room", lt[0][1].get("ln"))
                if not admitted:
                    bad("C10.R1", "not-admitted-while-room", "the candidate is not admitted although the main cache has room")
            else:
                if not lt:
                    # probationary empty: nothing to compare with
                    empt = [l for (j, l) in v.empty_attempts()] + [PB for c, t, e in facts if is_empty_len(c, t, PB)]
                    if PB not in empt and not peeked_none(p):
                        bad("C10.R2", "no-lt", "the main cache is full but the candidate is routed without consulting TinyLFU::lt")
                    cls = "miss-full-no-victim"
                else:
                    cls = "miss-full"
                    li, le = lt[0]
                    a1, a2 = le["args"][1], le["args"][2]
                    k1 = key_owner(p, a1)
                    k2 = key_owner(p, a2)
                    if k1 != cn:
                        bad("C10.R2", "lt-first-operand", "the first operand of lt (%s) is not the key of the window's evictee" % fmt_val(a1)[:60], le.get("ln"))
                    s2 = v.victim_source(k2) if k2 is not None else None
                    if s2 != ("tail", "prev", PB):
                        bad("C10.R2", "lt-second-operand", "the second operand of lt (%s) is not the key of probationary's least-recent entry" % fmt_val(a2)[:60], le.get("ln"))
                    ex = [e for e in p.events[li:] if e["ev"] == "exit" and e.get("callee_fid") == le["callee_fid"]]
                    verdict = None
                    if ex:
                        r = ex[0]["ret"]
                        for c, t, e in facts:
                            if c == r:
                                verdict = t
                        if isinstance(r, tuple) and r[0] == "const":
                            verdict = r[2] in ("1", "true")
                    if verdict is None:
                        bad("C10.R2", "lt-unused", "the result of lt does not decide the admission")
                    elif verdict and (not rejected or admitted):
                        bad("C10.R2", "lt-true-not-rejected", "lt(candidate, victim) is true but the candidate is not handed back as Evicted")
                    elif not verdict and (rejected or not admitted):
                        bad("C10.R2", "lt-false-not-admitted", "lt(candidate, victim) is false but the candidate is not admitted in place of the victim")
        counts[cls] = counts.get(cls, 0) + 1
    for k in ("window-hit", "main-hit", "miss-room", "miss-admit-free", "miss-full"):
        if ok and counts.get(k, 0) < 1:
            raise AnalysisError("C10: no %s path in put (%s): %s" % (k, cfg, counts))
    if ok:
        chk.ob("C10.R1", "%s:%s" % (cfg, f["q"]), "put routing and admission conform on %s" % counts, {"classes": counts})


def is_empty_len(c, t, lst):
    return False


def peeked_none(p):
    for e in p.events:
        if e["ev"] == "exit" and e["q"].endswith("peek_lru_from_probationary"):
            r = e["ret"]
            return isinstance(r, tuple) and r[0] == "agg" and r[2][1] == "None"
    return False


def main_full(facts):
    """True/False from the fact  protected.len() + probationary.len() < protected_size + probationary_size  (any operand order)"""
    want_l = {lenof(PT), lenof(PB)}
    want_r = {("load", ("H", SELF, ("slru", "protected_size")), 0), ("load", ("H", SELF, ("slru", "probationary_size")), 0)}
    FL = {"Lt": "Gt", "Gt": "Lt", "Le": "Ge", "Ge": "Le"}
    for c, t, e in facts:
        if not (isinstance(c, tuple) and c[0] == "bin" and c[1] in FL):
            continue
        for l, r, op in ((c[2], c[3], c[1]), (c[3], c[2], FL[c[1]])):
            if isinstance(l, tuple) and l[:2] == ("bin", "Add") and isinstance(r, tuple) and r[:2] == ("bin", "Add"):
                ls = set(("len", x[1], 0) if isinstance(x, tuple) and x[0] == "len" else x for x in (l[2], l[3]))
                rs = {r[2], r[3]}
                if ls == want_l and rs == want_r:
                    if not t:
                        op = {"Lt": "Ge", "Ge": "Lt", "Gt": "Le", "Le": "Gt"}[op]
                    if op in ("Lt", "Ge"):
                        return op == "Ge"
    return None


def key_owner(p, a):
    """node whose key the reference points at (directly, or the moved-out key of a departed node held in a local)"""
    from .c15 import arg_node
    class W_: events_on = []
    w = W_()
    n = arg_node(p, a, "key", w)
    if n is not None:
        return n
    if isinstance(a, tuple) and a[0] == "ref" and a[1][0] in ("L", "T"):
        from .lib.routing import READER
        val = READER.read(p.st, a[1])
        if isinstance(val, tuple) and val[0] == "moved":
            val = val[1]
        if isinstance(val, tuple) and val[0] == "load" and val[1][0] == "H" and val[1][2] == ("key",):
            return val[1][1]
    return None


def payload_terms(p, w, n):
    rec = {}
    for ev in w.events_on:
        if ev[1] in ("recycle-key", "recycle-val") and ev[3] == n:
            rec[ev[1][8:]] = ev[4]
    return rec


def is_payload(t, n, fld, rec):
    if t is None:
        return False
    if fld in rec and t == rec[fld]:
        return True
    pf = payload_field(t)
    return bool(pf) and pf[0] == n and pf[1] == fld


def migrated_to(p, w, v, n, lst):
    """the pair of departed node n was put into a node (fresh or recycled) that ends linked+indexed in list lst"""
    rec = payload_terms(p, w, n)
    for m, st in w.nodes.items():
        if v.final(m)[:2] != (lst, lst):
            continue
        if m[0] == "alloc":
            nv = p.st.store.get(("H", m, ()))
            if isinstance(nv, tuple) and nv[0] == "agg":
                vals = dict(zip(nv[4], nv[3]))
                if is_payload(vals.get("key"), n, "key", rec) and is_payload(vals.get("val"), n, "val", rec):
                    return True
    newk = set(ev[3] for ev in w.events_on if ev[1] == "recycle-key" and ev[3] != n and is_payload(ev[5], n, "key", rec))
    newv = set(ev[3] for ev in w.events_on if ev[1] == "recycle-val" and ev[3] != n and is_payload(ev[5], n, "val", rec))
    return any(v.final(m)[:2] == (lst, lst) for m in newk & newv)


def is_candidate_ret(p, w, n):
    rv = p.ret
    if not (isinstance(rv, tuple) and rv[0] == "agg" and rv[1] == "adt" and rv[2][1] == "Evicted"):
        return False
    vals = dict(zip(rv[4], rv[3]))
    rec = payload_terms(p, w, n)
    return is_payload(vals.get("key"), n, "key", rec) and is_payload(vals.get("value"), n, "val", rec)


def accessor_bounds(cx, chk, cfg, F):
    """X_cap() of the segmented main cache returns the field X_size (the demotion guard of put compares protected_len with protected_cap)"""
    adt = api.CACHES["SegmentedCache"]
    for f, im in api.cache_methods(F, adt):
        if im["trait"] or not f["name"].endswith("_cap") or F.body(f["path"]) is None:
            continue
        seg = f["name"][:-4]
        for p in cx.paths(cfg, f["path"]):
            rv = p.ret
            want = ("load", ("H", ("param", 1, True), (seg + "_size",)), 0)
            alt = ("proj", ("param", 1, True), (seg + "_size",))
            lenient = isinstance(rv, tuple) and rv[0] == "load" and rv[1][0] == "H" and rv[1][2] in ((seg + "_size",), (seg, "cap"))
            if rv == want or rv == alt or lenient:
                chk.ob("C10.R7", "%s:%s" % (cfg, f["q"]), "returns the %s bound" % seg)
            else:
                chk.violation("C10.R7", "%s|bound" % f["q"], "%s returns %s, not the bound of the %s segment" % (f["q"], fmt_val(rv)[:60], seg), f["span"]["file"], f["span"]["lo"], f["q"], None, cfg)


def use_refresh(cx, chk, cfg, F):
    """C10.R8: get / get_mut are use operations in whichever list the key is found: the hit node is re-linked (refreshed in the window,
    refreshed or promoted in the main cache).  A `peek` in their place leaves the entry where it was, and the window then pushes out the
    entry that was just used: the wrong candidate meets the filter."""
    from .lib import ntrun
    from .lib.routing import View
    for name in ("get", "get_mut"):
        f = composite.cache_method(F, ADT, name)
        hits = {}
        ok = True
        for f_, p, w in ntrun.walk(cx, cfg, only=lambda g: g["path"] == f["path"]):
            v = View(p, w)
            for L, n in v.key_hits.items():
                hits[L] = hits.get(L, 0) + 1
                if not v.of("attach", node=n):
                    ok = False
                    chk.violation("C10.R8", "%s|%s|no-refresh" % (f["q"], ".".join(L)), "%s finds the key in %s and does not re-link the entry (a use operation refreshes or promotes what it hits)" % (
                        f["q"], ".".join(L)), f["span"]["file"], f["span"]["lo"], f["q"], None, cfg)
                    break
            if not ok:
                break
        if ok:
            if len(hits) < 3:
                raise AnalysisError("C10.R8: %s hits only %s (window, probationary and protected expected)" % (f["q"], sorted(hits)))
            chk.ob("C10.R8", "%s:%s" % (cfg, f["q"]), "the hit entry is re-linked in every list it can be found in", {"hit_paths": {".".join(k): n for k, n in hits.items()}})


def recording(cx, chk, cfg, F):
    KP = ("param", 2, False)
    for name in ("get", "get_mut"):
        f = composite.cache_method(F, ADT, name)
        ok = True
        n = 0
        for p in cx.paths(cfg, f["path"]):
            n += 1
            incs = [(i, e) for i, e in outer_enters(p, lambda e: "TinyLFU::" in (e["q"] or ""), with_index=True)
                    if e["q"].split("::")[-1] in ("increment", "increment_hashed_key", "increment_keys", "increment_hashed_keys")]
            first_lookup = next((i for i, e in enumerate(p.events) if e["ev"] == "call" and "hm" in e and not e.get("generic")), len(p.events))
            if len(incs) != 1 or incs[0][1]["q"].split("::")[-1] != "increment" or incs[0][1]["args"][1] != KP:
                ok = False
                chk.violation("C10.R3", "%s|increment-count" % f["q"], "a path of %s records %d accesses for the caller's key (must be exactly one, hit or miss)" % (f["q"], len([x for x in incs if x[1]["args"][1] == KP])),
                              f["span"]["file"], f["span"]["lo"], f["q"], None, cfg)
            elif incs[0][0] > first_lookup:
                ok = False
                chk.violation("C10.R3", "%s|increment-late" % f["q"], "%s records the access only after a lookup: a miss (or an early return) is not recorded" % f["q"], f["span"]["file"], incs[0][1].get("ln"), f["q"], None, cfg)
        if ok:
            chk.ob("C10.R3", "%s:%s" % (cfg, f["q"]), "exactly one increment(k) before the lookups on %d paths" % n)
    # who may touch the estimator
    for f, im in api.cache_methods(F, ADT):
        if not (im["trait"] == api.CACHE_TRAIT or f.get("exported")) or not f.get("has_self"):
            continue
        touches = False
        clears = True
        for p in cx.paths(cfg, f["path"]):
            st = [e for e in p.events if e["ev"] == "store" and e["loc"][0] == "H" and loc_root(e["loc"]) == ("param", 1) and under_tinylfu(e["loc"])]
            lp = [e for e in p.events if e["ev"] == "call" and any(under_tinylfu_val(a) for a in e["args"]) and (e["q"] or "").split("::")[-1] in ("fill", "iter_mut", "index_mut", "push", "clear", "resize")]
            if st or lp:
                touches = True
            if not any(e["ev"] == "enter" and e["q"].endswith("TinyLFU::clear") for e in p.events):
                clears = False
        if f["name"] in ("get", "get_mut"):
            continue
        if f["name"] == "purge":
            if clears:
                chk.ob("C10.R3", "%s:purge" % cfg, "TinyLFU::clear on every path")
            else:
                chk.violation("C10.R3", "purge|no-clear", "purge does not clear the frequency estimator on every path", f["span"]["file"], f["span"]["lo"], f["q"], None, cfg)
        elif touches:
            chk.violation("C10.R3", "%s|touches-estimator" % f["q"], "%s writes to the frequency estimator (only get, get_mut and purge may)" % f["q"], f["span"]["file"], f["span"]["lo"], f["q"], None, cfg)
        else:
            chk.ob("C10.R3", "%s:%s|no-estimator-write" % (cfg, f["q"]), "does not write the estimator")


def under_tinylfu(loc):
    while loc[0] == "H":
        if loc[2][:1] == ("tinylfu",) and loc[1] == SELF:
            return True
        b = loc[1]
        if isinstance(b, tuple) and b[0] == "load":
            loc = b[1]
        elif isinstance(b, tuple) and b[0] == "iter_item":
            return under_tinylfu_val(b[2])
        else:
            return False
    return False


def under_tinylfu_val(v):
    for t in subterms(v):
        if t[0] in ("ref", "load") and isinstance(t[1], tuple) and t[1][0] == "H" and t[1][1] == SELF and t[1][2][:1] == ("tinylfu",):
            return True
    return False


def ctor(cx, chk, cfg, F):
    f = F.find("lfu::wtinylfu::WTinyLFUCacheBuilder::finalize")
    n = 0
    for p in cx.paths(cfg, f["path"]):
        ent = [e for e in p.events if e["ev"] == "enter" and e["q"].endswith("TinyLFUBuilder::new")]
        if not ent:
            continue
        n += 1
        d = lin.norm(lin.lin(ent[0]["args"][0]))
        fields = sorted(k[2][-1] if k[0] == "proj" else (k[1][2][-1] if k[0] == "load" else str(k)) for k in d if isinstance(k, tuple))
        want = sorted(["window_cache_size", "main_cache_protected_size", "main_cache_probationary_size"])
        if fields == want and all(c == 1 for c in d.values()):
            chk.ob("C10.R4", "%s:finalize" % cfg, "TinyLFU sized window + protected + probationary")
        else:
            chk.violation("C10.R4", "finalize|size", "the estimator is sized %s instead of window + protected + probationary" % fmt_val(ent[0]["args"][0])[:100],
                          f["span"]["file"], ent[0].get("ln"), f["q"], None, cfg)
    chk.floor("C10.R4", "constructor paths reaching TinyLFUBuilder::new (%s)" % cfg, n, 1)
