"""C09 - AdaptiveCache follows the ARC policy and keeps 0 <= p <= size."""
from .lib import api, ntrun, composite
from .lib.routing import View, cond_facts, norm_cmp, outer_enters, established, is_len_of, is_load_of, SELF
from .lib.absint import fmt_val, subterms
from .lib.facts import AnalysisError

LEVEL = "other"
EXPLANATION = (
    "R1 (sound, all-writers): p is written only as 0 by the constructor, as `size`, as p + d on the false edge of p + d >= size, as 0, or as "
    "p - d on the false edge of d >= p, and nowhere else in the crate; size is never written after construction - this decides 0 <= p <= size "
    "for all histories. R2 delta shape: on a recent-ghost hit d = 1 unless |B2| > |B1| then |B2| / |B1| (both lengths read before any event "
    "of this put); mirrored on a frequent-ghost hit. R3 routing on every path of the inlined MIR of put/get/get_mut: hit-recent promotes to "
    "frequent, hit-frequent refreshes, a ghost hit revives the key's node into frequent, a miss inserts into recent; room is made iff "
    "recent.len() + frequent.len() >= size; replace's choice of the recent list must be justified on the path by recent.len() > 0 and "
    "(recent.len() > p or (recent.len() == p and the frequent-ghost flag)), the choice of the frequent list by the negation; the flag is true "
    "exactly at the frequent-ghost call site; the victim is the list's LRU end and goes to the matching ghost list; the other list is used "
    "only after the chosen one was found empty, and both fallback directions exist; on a miss the ghost-trim tests read the ghost lengths as of the start of the put. R4: the hit node leaves its ghost list before anything is "
    "inserted into that ghost list. History-level conformance with ARC is not decided."
)
TRUSTED_BASE = ["as C03"]

ADT = api.CACHES["AdaptiveCache"]
T1, T2, B1, B2 = ("recent",), ("frequent",), ("recent_evict",), ("frequent_evict",)
GHOST_OF = {T1: B1, T2: B2}
P0 = ("load", ("H", SELF, ("p",)), 0)
SIZE = ("load", ("H", SELF, ("size",)), 0)


def run(cx, chk):
    chk.rule("C09.R1", "all-writers of p: {0, size, p+d under !(p+d >= size), p-d under !(d >= p)}; size has no writer after construction")
    chk.rule("C09.R2", "delta = 1 unless the opposite ghost list is longer, then the integer quotient of the ghost lengths (read before any event)")
    chk.rule("C09.R3", "routing + replace predicate justified on the path + flag per call site + victim to the matching ghost list + fallback")
    chk.rule("C09.R4", "ghost hit ordering: the hit node leaves its ghost list before anything is inserted into that list")
    chk.rule("C09.R5", "non-use operations (peek*, contains, len, per-segment accessors, ...) reach no mutation: they neither promote nor refresh")
    chk.rule("C09.R6", "purge empties every retained list of the cache")
    for cfg, F in cx.cfgs():
        composite.policy_hygiene(cx, chk, cfg, F, "AdaptiveCache", "C09.R5", "C09.R6")
        writers(cx, chk, cfg, F)
        for name in ("put", "get", "get_mut"):
            route(cx, chk, cfg, F, composite.cache_method(F, ADT, name), name)


def writers(cx, chk, cfg, F):
    # every MIR store to AdaptiveCache.p / .size anywhere in the crate
    sites = []
    for b in F.doc["bodies"]:
        for blk in b["blocks"]:
            for s in blk["s"]:
                if s["k"] == "assign":
                    pr = [e for e in s["p"]["p"] if isinstance(e, dict) and "f" in e]
                    if pr and pr[-1]["of"] == ADT and pr[-1]["n"] in ("p", "size"):
                        sites.append((b["path"], pr[-1]["n"], s["ln"]))
    for path, fld, ln in sites:
        fn = F.fns[path]
        if fld == "size":
            chk.violation("C09.R1", "size-store|" + fn["q"], "`size` is written after construction: the bound of p is no longer fixed", fn["span"]["file"], ln, fn["q"], None, cfg)
    owners = set()
    for path, fld, ln in sites:
        fn = F.fns[path]
        while fn.get("kind") == "Closure":
            fn = F.fns[fn["parent"]]
        owners.add(fn["path"])
    n = 0
    for path in sorted(owners):
        fn = F.fns[path]
        if not (fn.get("exported") or F.impl_of(fn)):
            continue
        for p in cx.paths(cfg, path):
            facts = cond_facts(p)
            for i, e in enumerate(p.events):
                if e["ev"] == "store" and e["loc"][0] == "H" and e["loc"][2][-1:] == ("p",) and e["loc"][1] == SELF:
                    n += 1
                    v = e["val"]
                    prior = [(c, t) for c, t, ev in facts if p.events.index(ev) < i]
                    why = admissible(v, prior)
                    if why:
                        chk.ob("C09.R1", "%s:%s|%s" % (cfg, fn["q"], why), "p := %s (%s)" % (fmt_val(v)[:60], why))
                    else:
                        chk.violation("C09.R1", "%s|%s" % (fn["q"], shape(v)), "p is assigned %s without the guard that keeps it within [0, size]" % fmt_val(v)[:80],
                                      fn["span"]["file"], e.get("ln"), fn["q"], None, cfg)
    chk.floor("C09.R1", "stores to p analysed in %s" % cfg, n, 4)
    # constructors: p = 0
    for f in F.doc["fns"]:
        if f["kind"] == "AssocFn" and f.get("exported") and ADT in str(f.get("output")) and F.body(f["path"]):
            for p in cx.paths(cfg, f["path"]):
                for t in subterms(p.ret):
                    if t[0] == "agg" and t[1] == "adt" and t[2][0] == ADT:
                        pv = dict(zip(t[4], t[3])).get("p")
                        if pv == ("const", "usize", "0"):
                            chk.ob("C09.R1", "%s:%s|ctor" % (cfg, f["q"]), "p starts at 0")
                        else:
                            chk.violation("C09.R1", "%s|ctor" % f["q"], "the constructor sets p to %s" % fmt_val(pv), f["span"]["file"], f["span"]["lo"], f["q"], None, cfg)


def shape(v):
    return v[1] if isinstance(v, tuple) and v[0] == "bin" else fmt_val(v)[:20]


def admissible(v, prior):
    """p := v keeps 0 <= p <= size (given 0 <= p <= size before): the guards may be written in either operand order, as a passed or
    a failed test (min / saturating_sub arrive here as the two paths of their case split)"""
    if v == ("const", "usize", "0"):
        return "zero"
    if v == SIZE:
        return "size"
    if v == P0:
        return "unchanged"
    if isinstance(v, tuple) and v[0] == "bin" and v[1] == "Add" and P0 in (v[2], v[3]):
        if established(prior, "Le", v, SIZE) or established(prior, "Le", ("bin", "Add", v[3], v[2]), SIZE):
            return "p+d under p+d<=size"
    if isinstance(v, tuple) and v[0] == "bin" and v[1] == "Sub" and v[2] == P0:
        if established(prior, "Le", v[3], P0):
            return "p-d under d<=p"
    return None


def lenterm(lst):
    return ("len", ("H", SELF, lst + ("map",)), 0)


def route(cx, chk, cfg, F, f, name):
    counts = {}
    ok = True
    fallbacks = set()

    def bad(rule, what, msg, ln=None):
        nonlocal ok
        ok = False
        chk.violation(rule, "%s|%s" % (f["q"], what), "%s: %s" % (f["q"], msg), f["span"]["file"], ln or f["span"]["lo"], f["q"], None, cfg)
    for f_, p, w in ntrun.walk(cx, cfg, only=lambda g: g["path"] == f["path"]):
        v = View(p, w)
        structural = v.of("index", "unindex", "attach", "detach", "rebox", "alloc")
        if T1 in v.key_hits:
            cls = "hit-recent"
            n = v.key_hits[T1]
            if v.final(n)[:2] != (T2, T2):
                bad("C09.R3", "recent-not-promoted", "a second access to a recent entry leaves it in %s instead of the frequent list" % (v.final(n)[:2],))
            if [x for x in structural if x[3] != n]:
                bad("C09.R3", "recent-extra", "promoting a recent entry also touches other nodes")
        elif T2 in v.key_hits:
            cls = "hit-frequent"
            n = v.key_hits[T2]
            if not v.refreshed(n, T2):
                bad("C09.R3", "frequent-no-refresh", "a hit on a frequent entry does not move it to the most-recent end")
            if [x for x in structural if not (x[3] == n and x[2] == T2 and x[1] in ("attach", "detach"))]:
                bad("C09.R3", "frequent-extra", "a frequent hit performs more than a refresh")
        elif name == "put" and (B1 in v.key_hits or B2 in v.key_hits):
            G = B1 if B1 in v.key_hits else B2
            cls = "ghost-hit-" + G[0]
            n = v.key_hits[G]
            if v.final(n)[:2] != (T2, T2):
                bad("C09.R3", cls + "-not-revived", "a ghost hit leaves the key's node in %s instead of the frequent list" % (v.final(n)[:2],))
            # R4 ordering
            un = [x[0] for x in v.of("unindex", lst=G, node=n)]
            ins = [x[0] for x in v.of("index", lst=G)]
            if un and ins and min(ins) < min(un):
                bad("C09.R4", cls + "-order", "an entry is inserted into %s before the hit node was taken out of it: the insertion may evict the very node being revived" % G[0],
                    p.events[min(ins)].get("ln"))
            delta_rule(p, bad, cls, G)
            replace_rule(v, p, bad, cls, want_flag=(G == B2), exclude={n}, fallbacks=fallbacks)
        else:
            cls = "miss"
            if name != "put":
                if structural:
                    bad("C09.R3", "get-miss-events", "a miss in %s changes the lists" % name)
                counts[cls] = counts.get(cls, 0) + 1
                continue
            fresh = [x[3] for x in v.of("alloc")] + [x[3] for x in v.of("recycle-key")]
            if not fresh or any(v.final(x)[:2] != (T1, T1) for x in fresh):
                bad("C09.R3", "miss-home", "a brand-new key ends in %s instead of the recent list" % [v.final(x)[:2] for x in fresh])
            if [x for x in v.of("store-p")]:
                pass
            replace_rule(v, p, bad, cls, want_flag=False, exclude=set(fresh), fallbacks=fallbacks)
            # ghost trimming is decided on the ghost lengths as they were when the put started: replace() has just pushed this put's
            # victim onto a ghost list, and a test on the live length forgets a ghost one step early (the victim itself when p == 0)
            for c, t, e in cond_facts(p):
                if isinstance(c, tuple) and c[0] == "bin" and c[1] in ("Gt", "Ge", "Lt", "Le", "Eq", "Ne"):
                    for a, b in ((c[2], c[3]), (c[3], c[2])):
                        if (isinstance(a, tuple) and a[0] == "len" and a[1] in (lenterm(B1)[1], lenterm(B2)[1]) and a[2] != 0
                                and any(isinstance(x, tuple) and x[0] == "load" and x[1] in (P0[1], SIZE[1]) for x in subterms(b))):
                            bad("C09.R3", "ghost-trim-live-length", "the ghost list %s is trimmed by a test on its length after this put's victim was pushed onto it (%s): an evicted entry is forgotten one step early" % (
                                a[1][2][0] if len(a[1]) > 2 else a[1], fmt_val(c)[:80]), e.get("ln"))
        counts[cls] = counts.get(cls, 0) + 1
    need = {"put": ("hit-recent", "hit-frequent", "ghost-hit-recent_evict", "ghost-hit-frequent_evict", "miss"), "get": ("hit-recent", "hit-frequent", "miss"),
            "get_mut": ("hit-recent", "hit-frequent", "miss")}[name]
    for k in need:
        if ok and counts.get(k, 0) < 1:
            raise AnalysisError("C09: no %s path in %s (%s)" % (k, f["q"], cfg))
    if name == "put":
        # (choosing the recent list implies recent.len() > 0, so only the frequent -> recent direction can be needed)
        for a, b in ((T2, T1),):
            if (a, b) not in fallbacks:
                bad("C09.R3", "no-fallback-%s-%s" % (a[0], b[0]), "when room must be made and the %s list (the one replace selects) is empty, no path evicts from the %s list instead: a full cache admits without making room" % (a[0], b[0]))
    if ok:
        chk.ob("C09.R3", "%s:%s" % (cfg, f["q"]), "routing, replace predicate, ghost ordering and delta conform on %s" % counts, {"fn": f["q"], "classes": counts})


def delta_rule(p, bad, cls, G):
    """the amount p moves by on a ghost hit"""
    other = B2 if G == B1 else B1
    stores = [e for e in p.events if e["ev"] == "store" and e["loc"][0] == "H" and e["loc"][1] == SELF and e["loc"][2] == ("p",)]
    if len(stores) != 1:
        bad("C09.R2", cls + "-p-writes", "p is written %d times on a ghost hit (must be adapted exactly once)" % len(stores))
        return
    val = stores[0]["val"]
    facts = [(c, t) for c, t, e in cond_facts(p)]
    longer = None
    for c, t in facts:
        r = norm_cmp(c, t, lambda x: x == lenterm(other))
        if r and r[2] == lenterm(G):
            longer = r[0]
    if longer is None:
        bad("C09.R2", cls + "-no-length-test", "delta is chosen without comparing the two ghost lengths")
        return
    want_d = ("bin", "Div", lenterm(other), lenterm(G)) if longer == "Gt" else ("const", "usize", "1") if longer == "Le" else None
    if want_d is None:
        bad("C09.R2", cls + "-length-relation", "the ghost lengths are compared with `%s` (delta must be the quotient exactly when the opposite ghost list is strictly longer)" % longer)
        return
    up = G == B1
    if val in (SIZE, ("const", "usize", "0")):
        # clamped: the guard must be about p (+/-) want_d
        guards = established(facts, "Ge", ("bin", "Add", P0, want_d), SIZE) if up else established(facts, "Ge", want_d, P0)
        if (val == SIZE) != up or not guards:
            bad("C09.R2", cls + "-clamp", "p is clamped to %s on a %s hit without the matching guard on p %s delta" % (fmt_val(val), G[0], "+" if up else "-"), stores[0].get("ln"))
        return
    want = ("bin", "Add" if up else "Sub", P0, want_d)
    if val != want:
        bad("C09.R2", cls + "-delta", "on a %s hit p becomes %s; it must become %s" % (G[0], fmt_val(val), fmt_val(want)), stores[0].get("ln"))


def replace_rule(v, p, bad, cls, want_flag, exclude, fallbacks):
    facts = cond_facts(p)
    # the fullness test
    full = None
    def resident_sum(x):
        return isinstance(x, tuple) and x[:2] == ("bin", "Add") and \
            set(("len", y[1], 0) for y in (x[2], x[3]) if isinstance(y, tuple) and y[0] == "len") == {lenterm(T1), lenterm(T2)}
    for c, t, e in facts:
        r = norm_cmp(c, t, resident_sum)
        if r and r[2] == SIZE and r[0] in ("Ge", "Lt"):
            full = r[0] == "Ge"
    res_un = [x for x in v.of("unindex") if x[2] in (T1, T2) and x[3] not in exclude]
    if full is None:
        bad("C09.R3", cls + "-no-full-test", "no test of recent.len() + frequent.len() against size before admitting")
        return
    if not full:
        if res_un:
            bad("C09.R3", cls + "-evict-not-full", "a resident entry is evicted although the cache is not full")
        return
    ent = outer_enters(p, lambda e: e["q"].endswith("::replace"))
    flags = [a for a in ent[0]["args"][1:] if isinstance(a, tuple) and a[0] == "const" and a[1] == "bool"] if ent else []
    if len(flags) == 1:      # the ghost-hit flag is the boolean argument, wherever it sits in the helper's parameter list
        flag = flags[0]
        if flag != ("const", "bool", "1" if want_flag else "0"):
            bad("C09.R3", cls + "-flag", "replace is called with flag %s at the %s site (must be %s)" % (fmt_val(flag), cls, want_flag), ent[0].get("ln"))
    if len(res_un) != 1:
        bad("C09.R3", cls + "-victim-count", "%d resident entries are evicted when making room (must be exactly one)" % len(res_un))
        return
    i, _, lst, m, raw = res_un[0]
    # atoms of the predicate, as established on the path (inside replace)
    A = Bq = Cq = None
    cur_p = P0
    for e in p.events[:i]:
        if e["ev"] == "store" and e["loc"][0] == "H" and e["loc"][1] == SELF and e["loc"][2] == ("p",):
            cur_p = e["val"]
    p_stores = [(j, e["val"]) for j, e in enumerate(p.events) if e["ev"] == "store" and e["loc"][0] == "H" and e["loc"][1] == SELF and e["loc"][2] == ("p",)]
    for c, t, e in facts:
        r = norm_cmp(c, t, lambda x: isinstance(x, tuple) and x[0] == "len" and x[1] == ("H", SELF, T1 + ("map",)))
        if not r:
            continue
        op, l, rhs = r
        if is_p_term(rhs) and p_stores:
            # the target the victim choice reads must be the adapted one: ARC adapts p, then replaces
            at = p.events.index(e)
            if any(j > at for j, _ in p_stores):
                bad("C09.R2", cls + "-p-adapted-late", "the victim is chosen by comparing recent.len() with p before p is adapted on this path: the choice uses the previous target", e.get("ln"))
                return
        if rhs == ("const", "usize", "0"):
            if op in ("Gt", "Ne"):
                A = True
            elif op in ("Le", "Eq"):
                A = False
        elif is_p_term(rhs):
            if op == "Gt":
                Bq = True
            elif op == "Le":
                Bq = False
            elif op == "Eq":
                Cq = True
            elif op == "Ne":
                Cq = False
            elif op == "Ge":      # len >= p  is not one of the admissible atoms
                Bq = "bad"
            elif op == "Lt":
                Bq = "bad"
    if cur_p == ("const", "usize", "0"):
        # p was just clamped to 0: `len > p` is the same test as `len > 0`, and `len == p` its negation
        if A is not None:
            Bq = A if Bq is None else Bq
            Cq = (not A) if Cq is None else Cq
    tried = [l for (j, l) in v.empty_attempts() if j < i]
    chosen_first = tried[0] if tried else lst
    if Bq == "bad":
        bad("C09.R3", cls + "-predicate-relation", "replace compares recent.len() with p using >= / < (the policy uses > and ==)")
        return
    just_recent = (A is True) and (Bq is True or (Cq is True and want_flag))
    just_freq = (A is False) or (Bq is False and (Cq is False or not want_flag))
    if chosen_first == T1 and not just_recent:
        bad("C09.R3", cls + "-recent-unjustified", "the victim is taken from the recent list although the path does not establish recent.len() > 0 and (recent.len() > p or (recent.len() == p and frequent-ghost hit)) [established: len>0=%s, len>p=%s, len==p=%s, flag=%s]"
            % (A, Bq, Cq, want_flag), p.events[i].get("ln"))
    if chosen_first == T2 and not just_freq:
        bad("C09.R3", cls + "-frequent-unjustified", "the victim is taken from the frequent list although the path does not establish the negation of the recent-list condition [len>0=%s, len>p=%s, len==p=%s, flag=%s]"
            % (A, Bq, Cq, want_flag), p.events[i].get("ln"))
    if lst != chosen_first:
        fallbacks.add((chosen_first, lst))
    src = v.victim_source(m)
    if src is None or src != ("tail", "prev", lst):
        bad("C09.R3", cls + "-victim-end", "the victim is not the least-recent entry of %s (%s)" % (lst[0], src), p.events[i].get("ln"))
    if v.final(m)[:2] != (GHOST_OF[lst], GHOST_OF[lst]):
        bad("C09.R3", cls + "-wrong-ghost", "the entry evicted from %s ends in %s instead of %s" % (lst[0], v.final(m)[:2], GHOST_OF[lst][0]), p.events[i].get("ln"))


def is_p_term(t):
    return any(x == P0 for x in subterms(t)) or t == SIZE
