"""Linear normal form of abstract integer terms: {atom: coeff} (+ 'const' key). Non-linear subterms are atoms."""


def lin(v, sign=1, out=None):
    if out is None:
        out = {}
    if isinstance(v, tuple) and v[0] == "bin" and v[1] in ("Add", "Sub"):
        lin(v[2], sign, out)
        lin(v[3], sign if v[1] == "Add" else -sign, out)
        return out
    if isinstance(v, tuple) and v[0] == "const":
        try:
            out["const"] = out.get("const", 0) + sign * int(v[2])
            return out
        except (TypeError, ValueError):
            pass
    if isinstance(v, tuple) and v[0] == "cast" and v[1] in ("IntToInt",):
        return lin(v[3], sign, out)
    out[v] = out.get(v, 0) + sign
    return out


def norm(d):
    return {k: c for k, c in d.items() if c != 0}


def sub(a, b):
    out = dict(a)
    for k, c in b.items():
        out[k] = out.get(k, 0) - c
    return norm(out)


def add(a, b):
    out = dict(a)
    for k, c in b.items():
        out[k] = out.get(k, 0) + c
    return norm(out)


def fmt(d, fmt_val):
    if not d:
        return "0"
    parts = []
    for k, c in d.items():
        name = "1" if k == "const" else fmt_val(k)
        parts.append("%+d*%s" % (c, name))
    return " ".join(parts)
