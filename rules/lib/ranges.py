"""Interval evaluation of abstract integer terms along one path (no solver: intervals + the path's own comparison facts).

Assumption A-mem (the property's own proviso "sizes that fit in memory"): collection lengths, configured sizes and capacities are
at most MEM = 2^48.  A-count: a counter that is incremented by one per operation does not reach its type's maximum.
"""
from .absint import fmt_val, subterms

MEM = 1 << 48
TYMAX = {"u8": 255, "u16": 65535, "u32": (1 << 32) - 1, "u64": (1 << 64) - 1, "usize": (1 << 64) - 1, "u128": (1 << 128) - 1,
         "i8": 127, "i16": 32767, "i32": (1 << 31) - 1, "i64": (1 << 63) - 1, "isize": (1 << 63) - 1}
TYMIN = {"i8": -128, "i16": -32768, "i32": -(1 << 31), "i64": -(1 << 63), "isize": -(1 << 63)}

# ranges of struct fields (by field name), each backed by an invariant checked elsewhere or by A-mem
FIELD_RANGES = {
    "cap": (0, MEM, "A-mem"), "size": (1, MEM, "validated >= 1 by the constructors (C01.R2) + A-mem"),
    "recent_size": (0, MEM, "floor(size*ratio), ratio in [0,1]"), "protected_size": (1, MEM, "validated"), "probationary_size": (1, MEM, "validated"),
    "p": (0, MEM, "0 <= p <= size (C09.R1)"), "w": (0, MEM, "w < samples after every try_reset (C11.R2)"), "samples": (1, MEM, "validated"),
    "len": (0, MEM, "iterator countdown starts at map.len()"),
    "shift": (16, 55, "Bloom.shift = 64 - exponent, 9 <= exponent <= 48 (get_size clamps to >= 512; A-mem)"),
    "set_locs": (1, 4096, "ceil(ln2 * size / n) >= 1 for fp in (0,1); <= 1100 for any positive f64 fp"),
    "size_exp": (9, 48, "get_size"), "mask": (1, MEM, "next_power_of_2(n).max(2) - 1"),
    "elem_num": (0, 1 << 62, "A-count: incremented once per doorkeeper insertion"),
    "window_cache_size": (0, MEM, "A-mem"), "main_cache_protected_size": (0, MEM, "A-mem"), "main_cache_probationary_size": (0, MEM, "A-mem"),
}


class Ctx:
    def __init__(self, path, upto, ptys=None):
        self.p = path
        self.upto = upto           # index of the event being judged
        self.ptys = ptys or {}     # root parameter index -> primitive type name
        self.facts = []
        self.nonempty = {}
        ver = {}
        for i, e in enumerate(path.events[:upto]):
            if e["ev"] == "branch" and "outcome" in e and isinstance(e.get("cond"), tuple):
                o = e["outcome"]
                if isinstance(o, tuple) and o and o[0] == "not":
                    t = True if "0" in [str(x) for x in o[1]] else None
                else:
                    t = str(o) not in ("0", "false")
                if t is not None:
                    self.facts.append((e["cond"], t))
            elif e["ev"] == "call" and "hm" in e and not e.get("generic"):
                X = e["recv"]
                if e["hm"] in ("get", "get_mut", "contains_key") and e.get("present"):
                    self.nonempty[X] = ver.get(X, 0)
                elif e["hm"] == "insert":
                    ver[X] = ver.get(X, 0) + 1
                    self.nonempty[X] = ver[X]
                elif e["hm"] == "remove" and e.get("present"):
                    ver[X] = ver.get(X, 0) + 1
        self.calls = {e["id"]: e for e in path.events if e["ev"] == "call" and "id" in e}
        self.used = set()

    # ---- relational facts
    def known_cmp(self, a, b):
        """set of relations {'<','<=','==','>=','>','!='} between a and b established by the path's branch facts"""
        out = set()
        FL = {"Lt": "Gt", "Gt": "Lt", "Le": "Ge", "Ge": "Le", "Eq": "Eq", "Ne": "Ne"}
        NG = {"Eq": "Ne", "Ne": "Eq", "Lt": "Ge", "Ge": "Lt", "Gt": "Le", "Le": "Gt"}
        for c, t in self.facts:
            if not (isinstance(c, tuple) and c[0] == "bin" and c[1] in FL):
                continue
            op = c[1]
            if c[2] == a and c[3] == b:
                pass
            elif c[2] == b and c[3] == a:
                op = FL[op]
            else:
                continue
            if not t:
                op = NG[op]
            out.add(op)
        return out


def clamp(lo, hi, ty):
    mx = TYMAX.get(ty)
    mn = TYMIN.get(ty, 0)
    if mx is None:
        return lo, hi
    return max(lo, mn), min(hi, mx)


def rng(t, cx, ty=None, depth=0):
    """(lo, hi) of an integer term; (None, None) if unknown"""
    FULL = (TYMIN.get(ty, 0), TYMAX.get(ty, (1 << 64) - 1)) if ty else (0, (1 << 64) - 1)
    if not isinstance(t, tuple) or depth > 24:
        return FULL
    k = t[0]
    if k == "const":
        try:
            v = int(t[2])
            return (v, v)
        except (TypeError, ValueError):
            if t[2] in ("true", "false"):
                return (1, 1) if t[2] == "true" else (0, 0)
            return FULL
    if k == "len":
        lo = 1 if cx.nonempty.get(t[1]) == t[2] else 0
        # a comparison fact len > c / len != 0 on the path
        for rel in ("Gt", "Ne"):
            if rel in cx.known_cmp(t, ("const", "usize", "0")):
                lo = max(lo, 1)
        cx.used.add("A-mem")
        return (lo, MEM)
    if k == "load":
        loc = t[1]
        proj = loc[3] if loc[0] == "L" else loc[2]
        names = [x for x in proj if isinstance(x, str)]
        if names and names[-1] in FIELD_RANGES:
            lo, hi, why = FIELD_RANGES[names[-1]]
            cx.used.add("field %s in [%s, %s]: %s" % (names[-1], lo, hi if hi < MEM else "MEM", why))
            r = refine(t, (lo, hi), cx)
            return r
        if ty:
            return refine(t, FULL, cx)
        return refine(t, (0, (1 << 64) - 1), cx)
    if k == "cast":
        inner = rng(t[3], cx, None, depth + 1)
        if t[1] == "IntToInt":
            mx = TYMAX.get(t[2])
            # facts may be stated about the cast value itself (`(size as u64) == 0` failed)
            if mx is not None and inner[1] is not None and inner[1] <= mx and inner[0] >= TYMIN.get(t[2], 0):
                return refine(t, inner, cx)
            return refine(t, (TYMIN.get(t[2], 0), mx if mx is not None else (1 << 64) - 1), cx)
        if t[1] == "FloatToInt":
            from . import sign
            if sign.cls(t[3], cx) == "ge1":
                return (1, TYMAX.get(t[2], (1 << 64) - 1))
            fr = frange(t[3], cx, depth + 1)
            if fr is not None:
                return (max(TYMIN.get(t[2], 0), int(fr[0])), min(TYMAX.get(t[2], (1 << 64) - 1), int(fr[1]) + 1))
            return (TYMIN.get(t[2], 0), TYMAX.get(t[2], (1 << 64) - 1))
        return FULL
    if k == "bin":
        op, a, b = t[1], t[2], t[3]
        la, ha = rng(a, cx, None, depth + 1)
        lb, hb = rng(b, cx, None, depth + 1)
        if op == "Add":
            return refine(t, (la + lb, ha + hb), cx)
        if op == "Sub":
            lo = la - hb
            if "Ge" in cx.known_cmp(a, b) or "Gt" in cx.known_cmp(a, b) or "Eq" in cx.known_cmp(a, b):
                lo = max(lo, 0)
            return refine(t, (lo, ha - lb), cx)
        if op == "Mul":
            c = [la * lb, la * hb, ha * lb, ha * hb]
            return (min(c), max(c))
        if op == "Div":
            if lb >= 1:
                return (la // hb if hb else 0, ha // lb)
            return (0, ha)
        if op == "Rem":
            if hb >= 1:
                return (0, min(ha, hb - 1))
            return (0, ha)
        if op == "BitAnd":
            return (0, min(ha, hb))
        if op in ("BitOr", "BitXor"):
            m = max(ha, hb)
            return (0, (1 << m.bit_length()) - 1)
        if op == "Shr":
            # (x << s) >> s on a 64-bit value keeps the low 64 - s bits
            if isinstance(a, tuple) and a[0] == "bin" and a[1] == "Shl" and a[3] == b and lb >= 0:
                return (0, (1 << max(0, 64 - lb)) - 1)
            return (la >> min(hb, 200), ha >> lb) if lb >= 0 else (0, ha)
        if op == "Shl":
            hi = min(ha << min(hb, 70), (1 << 64) - 1)      # bits shifted out are discarded
            return (0, hi)
        if op in ("Eq", "Ne", "Lt", "Le", "Gt", "Ge"):
            return (0, 1)
        return FULL
    if k == "call":
        e = cx.calls.get(t[1])
        q = t[2] or ""
        name = q.split("::")[-1]
        if e is not None:
            if name == "max" and len(e["args"]) == 2:
                r1, r2 = rng(e["args"][0], cx, None, depth + 1), rng(e["args"][1], cx, None, depth + 1)
                return (max(r1[0], r2[0]), max(r1[1], r2[1]))
            if name == "min" and len(e["args"]) == 2:
                r1, r2 = rng(e["args"][0], cx, None, depth + 1), rng(e["args"][1], cx, None, depth + 1)
                return (min(r1[0], r2[0]), min(r1[1], r2[1]))
        if name in ("into", "from", "try_into", "unwrap_or_default") and e is not None and e["args"]:
            return rng(e["args"][0], cx, None, depth + 1)
        if name in ("len", "capacity", "count"):
            cx.used.add("A-mem")
            return (0, MEM)
        if e is not None and e.get("dty") in TYMAX:
            # the declared result type of an opaque call bounds its value
            return refine(t, (TYMIN.get(e["dty"], 0), TYMAX[e["dty"]]), cx)
        return refine(t, FULL, cx)
    if k == "proj":
        # item of a Range iterator:  next#N as Some.0
        base = t[1]
        if isinstance(base, tuple) and base[0] == "call" and (base[2] or "").endswith("Iterator>::next"):
            e = cx.calls.get(base[1])
            if e is not None:
                it = e["args"][0]
                r = range_of_iter(it, cx, depth)
                if r:
                    return r
        if isinstance(base, tuple) and base[0] == "call" and "Enumerate" in (base[2] or "") and (base[2] or "").endswith("Iterator>::next") \
                and [x for x in t[2] if isinstance(x, str)][-2:] == ["0", "0"]:
            # index component of `for (i, x) in <collection>.iter().enumerate()`: next() as Some.0.0
            e = cx.calls.get(base[1])
            if e is not None and e["args"]:
                it = e["args"][0]
                if isinstance(it, tuple) and it[0] == "ref" and cx.p.st is not None:
                    from . import absint
                    it = absint.Interp(None).read(cx.p.st, it[1])
                n = enumerate_bound(it, cx) if isinstance(it, tuple) and it[0] == "call" and (it[2] or "").endswith("enumerate") else None
                if n is not None:
                    return (0, n - 1)
                cx.used.add("A-mem")
                return (0, MEM)
        if isinstance(base, tuple) and base[0] == "iter_item" and t[2] == ("0",) and isinstance(base[2], tuple) and base[2][0] == "call" \
                and (base[2][2] or "").endswith("enumerate"):
            n = enumerate_bound(base[2], cx)
            if n is not None:
                return (0, n - 1)
            cx.used.add("A-mem")
            return (0, MEM)
        names = [x for x in t[2] if isinstance(x, str)]
        if names and names[-1] in FIELD_RANGES:
            lo, hi, why = FIELD_RANGES[names[-1]]
            cx.used.add("field %s in [%s, %s]: %s" % (names[-1], lo, hi if hi < MEM else "MEM", why))
            return refine(t, (lo, hi), cx)
        return refine(t, FULL, cx)
    if k == "iter_item":
        r = range_of_iter(t[2], cx, depth)
        if r:
            return r
        return FULL
    if k == "param":
        pt = cx.ptys.get(t[1])
        if pt == "usize":
            cx.used.add("A-mem (usize parameter of an exported function denotes a size/capacity)")
            return refine(t, (0, MEM), cx)
        if pt in TYMAX:
            return refine(t, (TYMIN.get(pt, 0), TYMAX[pt]), cx)
        return refine(t, FULL, cx)
    return refine(t, FULL, cx)


def frange(t, cx, depth=0):
    """(lo, hi) of a float term of the shapes this crate uses: (x as f64) * r, floor(..), constants"""
    if not isinstance(t, tuple) or depth > 12:
        return None
    if t[0] == "const":
        try:
            v = float(t[2])
            return (v, v)
        except (TypeError, ValueError):
            return None
    if t[0] == "cast" and t[1] == "IntToFloat":
        r = rng(t[3], cx, None, depth + 1)
        return (float(r[0]), float(r[1]))
    if t[0] == "bin" and t[1] in ("Mul", "Sub", "Add"):
        a, b = frange(t[2], cx, depth + 1), frange(t[3], cx, depth + 1)
        if a is None or b is None:
            return None
        if t[1] == "Mul":
            c = [a[0] * b[0], a[0] * b[1], a[1] * b[0], a[1] * b[1]]
            return (min(c), max(c))
        if t[1] == "Add":
            return (a[0] + b[0], a[1] + b[1])
        return (a[0] - b[1], a[1] - b[0])
    if t[0] == "call" and (t[2] or "").split("::")[-1] in ("floor", "ceil"):
        e = cx.calls.get(t[1])
        if e is not None:
            r = frange(e["args"][0], cx, depth + 1)
            if r is not None:
                return (r[0] - 1, r[1] + 1)
    return None


def range_of_iter(it, cx, depth):
    """items of a Range(start, end) iterator are in [start, end-1]"""
    v = it
    if isinstance(v, tuple) and v[0] == "ref" and cx.p.st is not None:
        from . import absint
        v = absint.Interp(None).read(cx.p.st, v[1])
    for x in subterms(v) if isinstance(v, tuple) else []:
        if x[0] == "agg" and x[1] == "adt" and x[2][0].endswith("ops::Range") and len(x[3]) == 2:
            lo = rng(x[3][0], cx, None, depth + 1)[0]
            hi = rng(x[3][1], cx, None, depth + 1)[1]
            if isinstance(x[3][1], tuple) and x[3][1][0] == "const" and not str(x[3][1][2]).lstrip("-").isdigit():
                # named constant (e.g. DEPTH): resolved by the caller through CONSTS
                c = CONSTS.get(str(x[3][1][2]).split("::")[-1])
                if c is not None:
                    hi = c
            return (lo, max(lo, hi - 1))
    return None


CONSTS = {}
ARRAYS = {}     # field name -> length of the fixed-size array stored in that field (from the ADT facts)


def enumerate_bound(it, cx, depth=0):
    """upper bound of the index produced by `<collection>.iter[_mut]().enumerate()` when the collection is a fixed-size array field"""
    v = it
    for _ in range(5):
        if isinstance(v, tuple) and v[0] == "call":
            e = cx.calls.get(v[1])
            if e is None or not e["args"]:
                return None
            v = e["args"][0]
            continue
        if isinstance(v, tuple) and v[0] == "ref":
            loc = v[1]
            pr = loc[3] if loc[0] == "L" else loc[2]
            names = [x for x in pr if isinstance(x, str)]
            if names and names[-1] in ARRAYS:
                return ARRAYS[names[-1]]
            return None
        return None
    return None


def refine(t, r, cx):
    """tighten an interval with comparison facts of the path between t and constants"""
    lo, hi = r
    for c, tr in cx.facts:
        if not (isinstance(c, tuple) and c[0] == "bin" and c[1] in ("Eq", "Ne", "Lt", "Le", "Gt", "Ge")):
            continue
        op = c[1]
        if c[2] == t and isinstance(c[3], tuple) and c[3][0] == "const":
            k = c[3]
        elif c[3] == t and isinstance(c[2], tuple) and c[2][0] == "const":
            k = c[2]
            op = {"Lt": "Gt", "Gt": "Lt", "Le": "Ge", "Ge": "Le"}.get(op, op)
        else:
            continue
        try:
            kv = int(k[2])
        except (TypeError, ValueError):
            continue
        if not tr:
            op = {"Eq": "Ne", "Ne": "Eq", "Lt": "Ge", "Ge": "Lt", "Gt": "Le", "Le": "Gt"}[op]
        if op == "Eq":
            lo, hi = max(lo, kv), min(hi, kv)
        elif op == "Lt":
            hi = min(hi, kv - 1)
        elif op == "Le":
            hi = min(hi, kv)
        elif op == "Gt":
            lo = max(lo, kv + 1)
        elif op == "Ge":
            lo = max(lo, kv)
        elif op == "Ne" and kv == lo:
            lo = lo + 1
    return (lo, hi)
