"""Vocabulary of the public API (the names the properties themselves use) and derived tables."""
import fnmatch

from .facts import AnalysisError

CACHES = {
    "RawLRU": "lru::raw::RawLRU",
    "SegmentedCache": "lru::segmented::SegmentedCache",
    "TwoQueueCache": "lru::two_queue::TwoQueueCache",
    "AdaptiveCache": "lru::adaptive::AdaptiveCache",
    "WTinyLFUCache": "lfu::wtinylfu::WTinyLFUCache",
}
CACHE_HEADS = set(CACHES.values())
CACHE_TRAIT = "cache_api::Cache"

# read-only operations, by the property's own wording (C13/C06)
READONLY_PATTERNS = [
    "peek", "peek_mut", "peek_lru*", "peek_mru*", "contains", "len", "cap", "is_empty", "get_mru", "get_mru_mut",
    "iter", "iter_lru", "iter_mut", "iter_lru_mut", "keys", "keys_lru", "values", "values_lru", "values_mut", "values_lru_mut",
    "*_iter", "*_iter_lru", "*_iter_mut", "*_iter_lru_mut", "*_keys", "*_keys_lru", "*_values", "*_values_lru", "*_values_mut",
    "*_values_lru_mut", "*_len", "*_cap", "partition", "window_cache_*", "main_cache_*", "into_iter",
]
BRANCH_SCOPED = ["peek_or_put", "peek_mut_or_put", "contains_or_put"]


def is_readonly_name(name):
    if name in BRANCH_SCOPED:
        return False
    return any(fnmatch.fnmatchcase(name, p) for p in READONLY_PATTERNS)


def iterator_heads(F):
    """ADT heads of the crate that implement core::iter::Iterator"""
    out = set()
    for im in F.doc["impls"]:
        if im["trait"] and im["trait"].endswith("iter::traits::iterator::Iterator") or im["trait"] == "core::iter::Iterator":
            out.add(im["self_head"])
    return out


def cache_methods(F, head):
    """exported methods (inherent + Cache/ResizableCache trait impls) of one cache type"""
    out = []
    for f in F.doc["fns"]:
        if f["kind"] != "AssocFn":
            continue
        im = F.impl_of(f)
        if not im or im["self_head"] != head:
            continue
        out.append((f, im))
    return out


def readonly_methods(F):
    """[(fn, impl, why)] for every method the property calls read-only"""
    iters = iterator_heads(F)
    out = []
    for f in F.doc["fns"]:
        if f["kind"] != "AssocFn":
            continue
        im = F.impl_of(f)
        if not im:
            continue
        head = im["self_head"].lstrip("&").replace("mut ", "")
        tr = im["trait"] or ""
        name = f["name"]
        if head in CACHE_HEADS:
            if tr.endswith("fmt::Debug") or tr.endswith("fmt::Display"):
                out.append((f, im, "fmt"))
            elif tr == CACHE_TRAIT:
                if is_readonly_name(name):
                    out.append((f, im, "Cache::" + name))
            elif tr.endswith("IntoIterator"):
                out.append((f, im, "IntoIterator"))
            elif not tr:
                if f.get("exported") and is_readonly_name(name):
                    out.append((f, im, "inherent " + name))
        elif head in iters:
            if tr.endswith("Iterator") or tr.endswith("Clone") or tr.endswith("fmt::Debug"):
                out.append((f, im, "iterator " + name))
    return out


def branch_scoped_methods(F):
    out = []
    for f in F.doc["fns"]:
        if f["kind"] == "AssocFn" and f.get("name") in BRANCH_SCOPED and f.get("exported"):
            im = F.impl_of(f)
            if im and im["self_head"] in CACHE_HEADS and not im["trait"]:
                out.append((f, im))
    return out


def roots(F):
    """analysis roots: every exported fn/method and every method of a trait impl (Cache, Clone, Drop, Iterator, From...)"""
    out = []
    for f in F.doc["fns"]:
        if f["kind"] not in ("Fn", "AssocFn"):
            continue
        im = F.impl_of(f)
        trait_root = False
        if im is not None and im["trait"]:
            head = im["self_head"].lstrip("&").replace("mut ", "")
            adt = F.adts.get(head)
            # trait methods are reachable by users only through exported types
            trait_root = adt is None or adt["exported"]
        if f.get("exported") or trait_root:
            if f.get("parent_kind") == "Trait":
                continue  # trait method declarations (no body of their own unless provided)
            if F.body(f["path"]) is None:
                continue
            out.append(f)
    return out
