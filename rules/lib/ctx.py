"""Per-run context: facts of both feature configurations + cached abstract paths."""
import os

from . import facts as factsmod
from . import absint


class FullInline(absint.DefaultPolicy):
    """inline every same-crate callee and every closure"""
    name = "full"


class FullInlineDeep(FullInline):
    """thorough tier: loops are followed for one more iteration (a block may be visited 3 times on a path instead of 2)"""
    name = "full-deep"
    loop_bound = 3


class Ctx:
    def __init__(self, tier="quick", repo=None):
        self.tier = tier
        self.repo = repo or factsmod.REPO
        self.facts = factsmod.load_all(self.repo)
        self._paths = {}
        self._aborted = {}
        self._unwound = {}
        self._models = {}
        self.blind = {}          # (cfg, callee, owner fn, closure defs) -> line
        self.steps = 0
        self.npaths = 0

    @property
    def std(self):
        return self.facts["std"]

    @property
    def no_std(self):
        return self.facts["no_std"]

    def cfgs(self):
        return list(self.facts.items())

    def analysed(self):
        return {cfg: {"bodies": f.doc["n_bodies"], "fns": len(f.doc["fns"]), "impls": len(f.doc["impls"]), "adts": len(f.doc["adts"]),
                      "features": f.doc["cfg"], "facts_regenerated_this_run": bool(f.generated)} for cfg, f in self.facts.items()}

    def models(self, cfg):
        """std models + the resident-bound lists derived from the constructors (room reasoning, DESIGN 3.2)"""
        if cfg not in self._models:
            m = absint.Models()
            self._models[cfg] = m          # bootstrap: constructors are analysed without room reasoning
            from . import composite
            m.resident_bound_fields = composite.resident_bound(self, cfg)
            m.cap_alias = composite.cap_aliases(self, cfg)
            # paths computed during bootstrap did not need room facts (constructors / len): keep them
        return self._models[cfg]

    def models_inconsistent_eq(self, cfg):
        """same models, but a lookup by a node's own key may miss (user Eq/Hash need not be consistent)"""
        k = cfg + ":noeq"
        if k not in self._models:
            base = self.models(cfg)
            m = absint.Models()
            m.resident_bound_fields = base.resident_bound_fields
            m.cap_alias = base.cap_alias
            m.assume_consistent_eq = False
            self._models[k] = m
        return self._models[k]

    def models_orphan(self, cfg):
        """same models, but the node the index returns for a node's own key is not identified with that node (see Models.identify_own_key)"""
        k = cfg + ":orphan"
        if k not in self._models:
            base = self.models(cfg)
            m = absint.Models()
            m.resident_bound_fields = base.resident_bound_fields
            m.cap_alias = base.cap_alias
            m.identify_own_key = False
            self._models[k] = m
        return self._models[k]

    def paths(self, cfg, fpath, policy=None, models=None, tag="full"):
        k = (cfg, fpath, tag)
        if k not in self._paths:
            if policy is not None and self.tier == "thorough" and getattr(policy, "loop_bound", 2) == absint.DefaultPolicy.loop_bound:
                policy.loop_bound = 3      # rule-specific inlining policies follow loops one iteration further as well
            it = absint.Interp(self.facts[cfg], policy or (FullInlineDeep() if self.tier == "thorough" else FullInline()), models or self.models(cfg))
            ps = it.run(fpath)
            self.steps += it.steps
            self.npaths += len(ps)
            self._paths[k] = ps
            self._aborted[k] = it.aborted
            self._unwound[k] = it.unwound
            for q, fp, clos, ln in it.blind:
                self.blind.setdefault((cfg, q, fp, clos), ln)
        return self._paths[k]

    def unwound(self, cfg, fpath, tag="full"):
        """event sequences of unwinding out of user-code sites through drop guards (empty when the crate has no drop guard)"""
        self.paths(cfg, fpath, tag=tag)
        return self._unwound.get((cfg, fpath, tag), [])

    def aborted(self, cfg, fpath, tag="full"):
        """paths of fpath that end in a certain panic (computed together with paths())"""
        self.paths(cfg, fpath, tag=tag)
        return self._aborted.get((cfg, fpath, tag), [])
