"""A tiny sign/magnitude domain for the float formulas of the Bloom sizing code (no solver: structural rules only).

value classes:  'ge1' (>= 1), 'pos' (> 0), 'nonneg' (>= 0), 'neg' (< 0), 'lem1' (<= -1), None (unknown)
"""
from .ranges import rng


def _cmp_facts(t, cx):
    lo_strict = hi_lt1 = False
    for c, tr in cx.facts:
        if not (isinstance(c, tuple) and c[0] == "bin" and c[1] in ("Lt", "Le", "Gt", "Ge")):
            continue
        op = c[1]
        if c[2] == t and isinstance(c[3], tuple) and c[3][0] == "const":
            k = c[3]
        elif c[3] == t and isinstance(c[2], tuple) and c[2][0] == "const":
            k = c[2]
            op = {"Lt": "Gt", "Gt": "Lt", "Le": "Ge", "Ge": "Le"}[op]
        else:
            continue
        try:
            kv = float(k[2])
        except (TypeError, ValueError):
            continue
        if not tr:
            continue          # a comparison that evaluated false proves nothing about NaN
        if op == "Gt" and kv >= 0.0:
            lo_strict = True
        if op in ("Lt", "Le") and kv <= 1.0:
            hi_lt1 = (op == "Lt") or kv < 1.0
    return lo_strict, hi_lt1


def cls(t, cx, depth=0):
    if not isinstance(t, tuple) or depth > 16:
        return None
    k = t[0]
    if k == "const":
        try:
            v = float(t[2])
        except (TypeError, ValueError):
            return None
        return "ge1" if v >= 1 else "pos" if v > 0 else "nonneg" if v == 0 else "lem1" if v <= -1 else "neg"
    if k == "cast" and t[1] == "IntToFloat":
        r = rng(t[3], cx, None)
        return "ge1" if r[0] >= 1 else "nonneg" if r[0] >= 0 else None
    if k == "cast" and t[1] == "FloatToFloat":
        return cls(t[3], cx, depth + 1)
    if k == "un" and t[1] == "Neg":
        c = cls(t[2], cx, depth + 1)
        return {"ge1": "lem1", "pos": "neg", "neg": "pos", "lem1": "ge1"}.get(c)
    if k == "bin" and t[1] in ("Mul", "Div"):
        a, b = cls(t[2], cx, depth + 1), cls(t[3], cx, depth + 1)
        if a is None or b is None:
            return None
        sa = 1 if a in ("ge1", "pos") else -1 if a in ("neg", "lem1") else 0
        sb = 1 if b in ("ge1", "pos") else -1 if b in ("neg", "lem1") else 0
        if sa == 0 or sb == 0:
            return "nonneg" if (a == "nonneg" and sb >= 0 and t[1] == "Mul") or (b == "nonneg" and sa >= 0 and t[1] == "Mul") else None
        big = t[1] == "Mul" and a in ("ge1", "lem1") and b in ("ge1", "lem1")
        if sa * sb > 0:
            return "ge1" if big else "pos"
        return "lem1" if big else "neg"
    if k == "bin" and t[1] == "Add":
        a, b = cls(t[2], cx, depth + 1), cls(t[3], cx, depth + 1)
        order = {"ge1": 3, "pos": 2, "nonneg": 1}
        if a in order and b in order:
            return "ge1" if "ge1" in (a, b) else "pos" if "pos" in (a, b) else "nonneg"
        return None
    if k == "call":
        name = (t[2] or "").split("::")[-1]
        e = cx.calls.get(t[1])
        if e is None or not e["args"]:
            return None
        x = e["args"][0]
        if name in ("ln", "log"):
            c = cls(x, cx, depth + 1)
            lo_strict, hi_lt1 = _cmp_facts(x, cx)
            if lo_strict and hi_lt1:
                return "neg"            # ln of a value in (0, 1)
            return None
        if name == "ceil":
            c = cls(x, cx, depth + 1)
            return "ge1" if c in ("ge1", "pos") else "nonneg" if c == "nonneg" else None
        if name in ("floor", "round", "trunc"):
            c = cls(x, cx, depth + 1)
            return "ge1" if c == "ge1" else "nonneg" if c in ("pos", "nonneg") else None
    lo_strict, hi_lt1 = _cmp_facts(t, cx)
    if lo_strict:
        return "pos"
    return None


def int_ge1(t, cx):
    """integer term provably >= 1 when it is a float->int cast of a value >= 1"""
    if isinstance(t, tuple) and t[0] == "cast" and t[1] == "FloatToInt":
        return cls(t[3], cx) == "ge1"
    return rng(t, cx, None)[0] >= 1
