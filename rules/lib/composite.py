"""Structure of the composite caches, derived from the code itself (constructors and len()).

  lists(F, adt)            RawLRU / SegmentedCache / LRUCache typed fields (the retained set)
  resident(cx, cfg, adt)   fields whose len() is summed by <adt as Cache>::len  (the resident set)
  resident_bound(cx, cfg)  names of resident RawLRU fields constructed with the same capacity term as the `size` field
"""
from . import api
from .absint import subterms, fmt_val
from .facts import AnalysisError

LIST_HEADS = ("lru::raw::RawLRU", "lru::segmented::SegmentedCache")


def list_fields(F, adt_name):
    adt = F.adts.get(adt_name)
    if adt is None:
        raise AnalysisError("ADT %s not found" % adt_name)
    out = []
    for f in adt["variants"][0]["fields"]:
        tt = f["tt"]
        if tt["k"] == "adt" and tt["n"] in LIST_HEADS:
            out.append((f["n"], tt["n"]))
    return out


def len_fn(F, adt_name):
    for f, im in api.cache_methods(F, adt_name):
        if im["trait"] == api.CACHE_TRAIT and f["name"] == "len":
            return f
    raise AnalysisError("no Cache::len for %s" % adt_name)


def cache_method(F, adt_name, name, trait=api.CACHE_TRAIT):
    c = [f for f, im in api.cache_methods(F, adt_name) if f["name"] == name and (im["trait"] == trait if trait else not im["trait"])]
    if len(c) != 1:
        raise AnalysisError("%s::%s: %d candidates" % (adt_name, name, len(c)))
    return c[0]


def fields_touched(path):
    """set of first-level field names of self whose memory is read by hash-map calls / loads on this path"""
    out = set()
    for e in path.events:
        if e["ev"] == "call" and "hm" in e and e["recv"][0] == "H":
            r = e["recv"]
            if isinstance(r[1], tuple) and r[1][0] == "param" and r[1][1] == 1 and r[2]:
                out.add(r[2][0])
    for t in subterms(path.ret):
        if t[0] == "len" and t[1][0] == "H" and isinstance(t[1][1], tuple) and t[1][1][0] == "param" and t[1][2]:
            out.add(t[1][2][0])
    return out


def resident(cx, cfg, adt_name):
    F = cx.facts[cfg]
    f = len_fn(F, adt_name)
    fields = set()
    for p in cx.paths(cfg, f["path"]):
        for t in subterms(p.ret):
            if t[0] == "len" and t[1][0] == "H" and t[1][2]:
                fields.add(t[1][2][0])
    return fields


def resident_bound(cx, cfg):
    """RawLRU fields of 2Q/ARC-style caches whose cap is the cache's own `size` (derived from the constructors' return value)"""
    F = cx.facts[cfg]
    out = {}
    for short, adt in api.CACHES.items():
        a = F.adts.get(adt)
        if a is None:
            continue
        names = [f["n"] for f in a["variants"][0]["fields"]]
        if "size" not in names:
            continue
        res = resident(cx, cfg, adt)
        found = None
        for f in F.doc["fns"]:
            if f["kind"] != "AssocFn" or not f.get("exported"):
                continue
            if adt not in str(f.get("output")):
                continue
            if f.get("has_self") and ((F.impl_of(f) or {}).get("self_head") == adt):
                continue        # methods of the cache itself (clone, ...) are not constructors; builders' finalize(self) are
            for p in cx.paths(cfg, f["path"]):
                for t in subterms(p.ret):
                    if t[0] == "agg" and t[1] == "adt" and t[2][0] == adt:
                        vals = dict(zip(t[4], t[3]))
                        size = vals.get("size")
                        ok = set()
                        for fld in res:
                            v = vals.get(fld)
                            if isinstance(v, tuple) and v[0] == "agg" and v[1] == "adt" and v[2][0] == "lru::raw::RawLRU":
                                cap = dict(zip(v[4], v[3])).get("cap")
                                if cap == size:
                                    ok.add(fld)
                        found = ok if found is None else (found & ok)
        if found:
            out[adt] = frozenset(found)
    return out


def cap_aliases(cx, cfg):
    """scalar fields of a composite constructed with the same term as the cap of one of its RawLRU fields (e.g. protected_size -> protected)"""
    F = cx.facts[cfg]
    out = {}
    for short, adt in api.CACHES.items():
        a = F.adts.get(adt)
        if a is None or adt == api.CACHES["RawLRU"]:
            continue
        for f in F.doc["fns"]:
            if f["kind"] != "AssocFn" or not f.get("exported") or adt not in str(f.get("output")):
                continue
            for p in cx.paths(cfg, f["path"]):
                for t in subterms(p.ret):
                    if t[0] == "agg" and t[1] == "adt" and t[2][0] == adt:
                        vals = dict(zip(t[4], t[3]))
                        caps = {}
                        for fld, v in vals.items():
                            if isinstance(v, tuple) and v[0] == "agg" and v[1] == "adt" and v[2][0] == "lru::raw::RawLRU":
                                caps[fld] = dict(zip(v[4], v[3])).get("cap")
                        for fld, v in vals.items():
                            if fld in caps or fld == "size":
                                continue
                            m = [l for l, c in caps.items() if c == v and not (isinstance(v, tuple) and v[0] == "const")]
                            if len(m) == 1:
                                out[fld] = m[0]
    return out


def policy_hygiene(cx, chk, cfg, F, short, rule_peek, rule_purge):
    """shared by C07-C10: (a) the non-use operations of the cache (peek*, contains, len, ..., per-segment accessors) reach no mutation, so
    they can neither promote nor refresh; (b) purge empties every retained list (derived from the struct definition)"""
    from .effects import mutation_events
    adt = api.CACHES[short]
    n = 0
    for f, im, why in api.readonly_methods(F):
        if im["self_head"].lstrip("&").replace("mut ", "") != adt:
            continue
        n += 1
        bad = [m for p in cx.paths(cfg, f["path"]) for m in mutation_events(p, False)]
        if bad:
            chk.violation(rule_peek, "%s|%s|%s" % (f["q"], bad[0]["kind"], bad[0]["what"]),
                          "%s is a non-use operation but changes the cache (%s): it promotes/refreshes an entry or alters policy state" % (f["q"], bad[0]["text"]),
                          f["span"]["file"], bad[0].get("ln") or f["span"]["lo"], f["q"], None, cfg)
        else:
            chk.ob(rule_peek, "%s:%s" % (cfg, f["q"]), "no mutation")
    if n < 5:
        raise AnalysisError("%s: only %d read-only methods found" % (short, n))
    f = cache_method(F, adt, "purge")

    def lists(a, prefix=()):
        out = []
        for name, head in list_fields(F, a):
            if head == api.CACHES["RawLRU"]:
                out.append(prefix + (name,))
            else:
                out += lists(head, prefix + (name,))
        return out
    retained = set(lists(adt))
    for p in cx.paths(cfg, f["path"]):
        purged = set()
        for e in p.events:
            if e["ev"] == "enter" and e["q"].endswith("::purge") and e["args"] and isinstance(e["args"][0], tuple) and e["args"][0][0] == "ref":
                l = e["args"][0][1]
                if l[0] == "H" and l[1] == ("param", 1, True):
                    purged.add(l[2])
        purged = set(x for x in retained if any(x[:len(y)] == y for y in purged))
        if retained - purged:
            chk.violation(rule_purge, "%s::purge|%s" % (short, ",".join(".".join(x) for x in sorted(retained - purged))),
                          "%s::purge leaves %s untouched: entries (or ghosts) survive a purge and steer later decisions" % (short, sorted(".".join(x) for x in retained - purged)),
                          f["span"]["file"], f["span"]["lo"], f["q"], None, cfg)
        else:
            chk.ob(rule_purge, "%s:%s::purge" % (cfg, short), "purges %s" % sorted(".".join(x) for x in retained))
    # (c) remove(k) forgets k everywhere: a path that reports "not found" has looked the key up in every retained list
    fr = cache_method(F, adt, "remove")
    n_none = 0
    for p in cx.paths(cfg, fr["path"]):
        rv = p.ret
        if not (isinstance(rv, tuple) and rv[0] == "agg" and rv[1] == "adt" and rv[2][1] == "None"):
            continue
        n_none += 1
        looked = set()
        for e in p.events:
            if e["ev"] == "call" and e.get("hm") and e.get("recv") and e["recv"][0] == "H" and e["recv"][1] == ("param", 1, True):
                looked.add(tuple(e["recv"][2][:-1]))
        missing = retained - looked
        if missing:
            chk.violation(rule_purge, "%s::remove|%s" % (short, ",".join(".".join(x) for x in sorted(missing))),
                          "%s::remove reports `not found` without looking into %s: a key remembered there survives its removal and steers later decisions" % (short, sorted(".".join(x) for x in missing)),
                          fr["span"]["file"], fr["span"]["lo"], fr["q"], None, cfg)
            break
    else:
        if n_none < 1:
            raise AnalysisError("%s::remove has no path returning None (%s)" % (short, cfg))
        chk.ob(rule_purge, "%s:%s::remove" % (cfg, short), "a miss has consulted %s" % sorted(".".join(x) for x in retained))


# ------------------------------------------------------------------ configuration integrity (shared by C01, C07, C08, C10)
def _self_field(v):
    """name of the field of `self` (parameter 1) a value is read from, else None"""
    while isinstance(v, tuple) and v[0] == "moved":
        v = v[1]
    if isinstance(v, tuple) and v[0] == "proj" and isinstance(v[1], tuple) and v[1][0] == "param" and v[1][1] == 1 and v[2]:
        return v[2][0]
    if isinstance(v, tuple) and v[0] == "load" and v[1][0] == "H" and isinstance(v[1][1], tuple) and v[1][1][0] == "param" and v[1][1][1] == 1 and v[1][2]:
        return v[1][2][0]
    return None


def builder_setters(cx, chk, cfg, F, rule, only=None):
    """every method of a *Builder type that consumes the builder and returns a builder rebuilds it field by field: a field that is taken
    from the old builder must be taken from the SAME field (sizes, ratios and hashers are never cross-wired on their way from the
    caller's arguments to `finalize`).  Returns the number of setter methods analysed."""
    n = 0
    for adt in F.doc["adts"]:
        if not adt["name"].endswith("Builder") or adt["kind"] != "Struct" or (only and not adt["name"].endswith(only)):
            continue
        for f, im in api.cache_methods(F, adt["name"]):
            if im["trait"] or not f.get("has_self") or F.body(f["path"]) is None:
                continue
            out = f.get("output") or {}
            if not (out.get("k") == "adt" and out.get("n") == adt["name"]):
                continue
            n += 1
            ok = True
            for p in cx.paths(cfg, f["path"]):
                rv = p.ret
                while isinstance(rv, tuple) and rv[0] == "moved":
                    rv = rv[1]
                if rv == ("param", 1, True):
                    continue        # returns self after in-place updates: judged below through the stores
                if not (isinstance(rv, tuple) and rv[0] == "agg" and rv[1] == "adt" and rv[2][0] == adt["name"]):
                    continue
                for fld, v in zip(rv[4], rv[3]):
                    src = _self_field(v)
                    if src is not None and src != fld:
                        ok = False
                        chk.violation(rule, "%s|%s" % (f["q"], fld), "%s rebuilds the builder with field `%s` taken from `self.%s`: the configured %s is silently replaced" % (f["q"], fld, src, fld),
                                      f["span"]["file"], f["span"]["lo"], f["q"], None, cfg)
                    elif src is None and f["name"].startswith("set_") and not any(t_[0] == "param" and t_[1] >= 2 for t_ in subterms(v)) \
                            and not (isinstance(v, tuple) and v[0] == "agg" and v[1] == "adt" and str(v[2][0]).endswith("PhantomData")):
                        ok = False
                        chk.violation(rule, "%s|%s|reset" % (f["q"], fld), "%s rebuilds the builder with field `%s` set to %s, which is neither the old builder's `%s` nor the setter's argument: an earlier configuration of %s is silently discarded" % (
                            f["q"], fld, fmt_val(v)[:50], fld, fld), f["span"]["file"], f["span"]["lo"], f["q"], None, cfg)
                for e in p.events:
                    if e["ev"] == "store" and e["loc"][0] == "H" and isinstance(e["loc"][1], tuple) and e["loc"][1][0] == "param" and e["loc"][1][1] == 1 and e["loc"][2]:
                        src = _self_field(e["val"])
                        if src is not None and src != e["loc"][2][0]:
                            ok = False
                            chk.violation(rule, "%s|%s" % (f["q"], e["loc"][2][0]), "%s stores `self.%s` into field `%s`" % (f["q"], src, e["loc"][2][0]), f["span"]["file"], e.get("ln"), f["q"], None, cfg)
            if ok:
                chk.ob(rule, "%s:%s" % (cfg, f["q"]), "fields kept from the old builder keep their place")
    return n


def clone_bounds(cx, chk, cfg, F, rule, only=None):
    """the bounds of a clone are the bounds of the original: in the Clone impl of every cache type each usize field and each inner list
    is rebuilt from the same field of self (RawLRU: cap from self.cap)"""
    from . import absint

    class NoCloneInline(absint.DefaultPolicy):
        def inline(self, interp, fr, info):
            return not (info["q"].endswith("Clone>::clone") or info["q"].endswith("Clone::clone"))
    n = 0
    for short, adt in api.CACHES.items():
        if only and short not in only:
            continue
        A = F.adts.get(adt)
        for im in F.doc["impls"]:
            if not ((im["trait"] or "").endswith("clone::Clone") and im["self_head"] == adt):
                continue
            fn = [F.fns[i] for i in im["items"] if i in F.fns and F.fns[i]["name"] == "clone"]
            if not fn:
                continue
            f = fn[0]
            n += 1
            ok = True
            raw = short == "RawLRU"
            for p in (cx.paths(cfg, f["path"]) if raw else cx.paths(cfg, f["path"], policy=NoCloneInline(), tag="noclone")):
                rv = p.ret
                while isinstance(rv, tuple) and rv[0] == "moved":
                    rv = rv[1]
                if not (isinstance(rv, tuple) and rv[0] == "agg" and rv[1] == "adt" and rv[2][0] == adt):
                    continue
                vals = dict(zip(rv[4], rv[3]))
                for fld in A["variants"][0]["fields"]:
                    if fld["ty"] != "usize":
                        continue
                    src = _self_field(vals.get(fld["n"]))
                    if src != fld["n"]:
                        ok = False
                        chk.violation(rule, "%s|%s" % (f["q"], fld["n"]), "the clone's `%s` is %s, not self.%s: the copy reports / enforces a different bound than the original" % (
                            fld["n"], ("self." + src) if src else absint.fmt_val(vals.get(fld["n"]))[:50], fld["n"]), f["span"]["file"], f["span"]["lo"], f["q"], None, cfg)
            if ok:
                chk.ob(rule, "%s:%s" % (cfg, f["q"]), "every usize bound of the clone comes from the same field of self")
    return n


ROLE_FAMILIES = (("probationary", "protected"), ("recent", "frequent", "freq", "ghost"), ("window", "main"))


def _role(name):
    """(family index, role) of an identifier that names one role of a family - and only one"""
    if not name:
        return None
    n = name.lower()
    for i, fam in enumerate(ROLE_FAMILIES):
        hits = sorted(set("frequent" if r == "freq" else r for r in fam if r in n))
        if len(hits) == 1:
            return (i, hits[0])
    return None


def role_wiring(cx, chk, cfg, F, rule):
    """a value that is named after one segment (`..probationary..`, `..protected..`, `recent`, `frequent`, `ghost`, `window`, `main`) is
    never passed for a parameter, or stored into a field, that is named after ANOTHER segment of the same family: the caller's
    configuration reaches the part it was given for.  Works on the MIR: argument / operand provenance = the field or the named local it
    was read from (through temporaries).  Returns the number of role-carrying sites examined."""
    n = 0
    for b in F.doc["bodies"]:
        fn = F.fns[b["path"]]
        names = {i: l.get("name") for i, l in enumerate(b["locals"])}
        defs = {}
        for blk in b["blocks"]:
            for s in blk["s"]:
                if s["k"] == "assign" and not s["p"]["p"]:
                    defs.setdefault(s["p"]["l"], []).append(s["r"])

        def prov(op, depth=0):
            if not isinstance(op, dict) or op.get("k") not in ("move", "copy") or depth > 6:
                return None
            pl = op["p"]
            flds = [e["n"] for e in pl["p"] if isinstance(e, dict) and "n" in e]
            if flds:
                return flds[-1]
            if names.get(pl["l"]):
                return names[pl["l"]]
            ds = defs.get(pl["l"], [])
            if len(ds) == 1 and ds[0]["k"] in ("use", "cast") and ds[0].get("o"):
                return prov(ds[0]["o"], depth + 1)
            return None
        for blk in b["blocks"]:
            # struct literals
            for s in blk["s"]:
                if s["k"] == "assign" and s["r"]["k"] == "agg" and s["r"].get("ak") == "adt" and s["r"].get("fields"):
                    for fld, o in zip(s["r"]["fields"], s["r"]["os"]):
                        rf, rp = _role(fld), _role(prov(o))
                        if rf and rp:
                            n += 1
                            if rf[0] == rp[0] and rf[1] != rp[1]:
                                chk.violation(rule, "%s|field|%s" % (fn["q"], fld), "%s initialises field `%s` from `%s`: a %s value ends up configuring the %s part" % (fn["q"], fld, prov(o), rp[1], rf[1]),
                                              fn["span"]["file"], s["ln"], fn["q"], None, cfg)
            t = blk["t"]
            if t["k"] != "call" or "def" not in t["f"]:
                continue
            r = t["f"].get("resolved")
            cdef = r["def"] if r else t["f"]["def"]
            cb = F.body(cdef)
            if cb is None:
                continue
            for i, a in enumerate(t["args"]):
                pn = cb["locals"][i + 1].get("name") if i + 1 < len(cb["locals"]) else None
                rf, rp = _role(pn), _role(prov(a))
                if rf and rp:
                    n += 1
                    if rf[0] == rp[0] and rf[1] != rp[1]:
                        chk.violation(rule, "%s|arg|%s|%s" % (fn["q"], F.fns[cdef]["q"] if cdef in F.fns else cdef, pn),
                                      "%s passes `%s` for the parameter `%s` of %s: a %s value ends up configuring the %s part" % (
                                          fn["q"], prov(a), pn, F.fns[cdef]["q"] if cdef in F.fns else cdef, rp[1], rf[1]),
                                      fn["span"]["file"], t["ln"], fn["q"], None, cfg)
    return n
