"""Run the node-typestate walker over every analysis root of one configuration (streaming)."""
import re

from . import api, nt

_PRIMS = {}


def prims(F):
    if F.cfg not in _PRIMS:
        _PRIMS[F.cfg] = nt.LinkPrims(F)
    return _PRIMS[F.cfg]


def is_teardown(f):
    return f["q"].endswith("core::ops::Drop>::drop")


def walk(cx, cfg, only=None, noeq=False):
    """yield (root fn, path, walker) for every path of every root"""
    F = cx.facts[cfg]
    P = prims(F)
    for f in api.roots(F):
        if only is not None and not only(f):
            continue
        ps = cx.paths(cfg, f["path"], models=cx.models_inconsistent_eq(cfg), tag="noeq") if noeq else cx.paths(cfg, f["path"])
        for p in ps:
            yield f, p, nt.NT(F, P, p, f["q"], is_teardown(f)).run()


_ID = re.compile(r"(#|@)\d+")


def norm(msg):
    """site keys must not contain path-local ids"""
    return _ID.sub(r"\1", msg)


def report_findings(cx, chk, prefixes, extra=None):
    """generic driver: run NT everywhere, turn findings whose rule starts with one of `prefixes` into violations,
    and record one obligation per (cfg, root, rule family)"""
    stats = {}
    for cfg, F in cx.cfgs():
        seen_root = {}
        for f, p, w in walk(cx, cfg):
            r = seen_root.setdefault(f["q"], {"paths": 0, "nodes": 0, "bad": 0, "f": f})
            r["paths"] += 1
            r["nodes"] += len([1 for s in w.nodes.values() if s.kind not in ("unknown",)])
            for fd in w.findings:
                if not fd["rule"].startswith(prefixes):
                    continue
                r["bad"] += 1
                g = F.fns.get(fd["fn"]) or f
                key = "%s|%s|%s" % (f["q"], g["q"], norm(fd["msg"])[:160])
                chk.violation(fd["rule"], key, "%s (reached from %s)" % (fd["msg"], f["q"]), g["span"]["file"], fd["ln"], g["q"],
                              ["root %s" % f["q"], "%s line %s" % (g["q"], fd["ln"])], cfg)
            if extra:
                extra(cfg, F, f, p, w)
        for q, r in seen_root.items():
            if r["nodes"] and not r["bad"]:
                for pre in prefixes:
                    chk.ob(pre, "%s:%s" % (cfg, q), "typestate holds on %d paths (%d node instances)" % (r["paths"], r["nodes"]),
                           {"root": q, "paths": r["paths"], "node_instances": r["nodes"]})
        stats[cfg] = {"roots": len(seen_root), "roots_touching_nodes": len([1 for r in seen_root.values() if r["nodes"]]),
                      "paths": sum(r["paths"] for r in seen_root.values())}
    chk.analysed["nt"] = stats
    return stats


def callback_consistency(cx, chk, cfg, rule, only=None, why="if it unwinds, the operation ends with a chain whose nodes are not exactly the entries of the index"):
    """at every eviction-callback site each tracked node is in its list's chain iff it is in that list's index (shared by the rules that
    depend on the state a panicking callback leaves behind). Returns the number of callback site visits."""
    from .absint import fmt_val
    F = cx.facts[cfg]
    n = 0
    bad = 0
    for f, p, w in walk(cx, cfg, only=only):
        if is_teardown(f):
            continue
        for (i, e, kind, snap) in w.snapshots:
            if kind != "cb":
                continue
            n += 1
            for node, st in snap.items():
                if st.kind in ("unknown", "sentinel") or st.own != "raw":
                    continue
                L, I = isinstance(st.link, tuple), isinstance(st.index, tuple)
                if L != I or (L and I and st.link[1:] != st.index[1:]):
                    bad += 1
                    g = F.fns.get(e.get("fn")) or f
                    chk.violation(rule, "%s|%s" % (f["q"], st.src.split("#")[0]), "the eviction callback runs while node %s is linked=%s indexed=%s: %s" % (fmt_val(node), L, I, why),
                                  g["span"]["file"], e.get("ln"), g["q"], ["root " + f["q"]], cfg)
    if not bad:
        chk.ob(rule, cfg + ":callback-sites", "chain = index at %d callback site visits" % n)
    return n


def dup_source_drops(chk, cfg, F, f, p, rule):
    """a value duplicated with ptr::read / assume_init_read must not be dropped at its source afterwards (unless the source was
    overwritten with ptr::write first): reports into `rule`. Payload fields of nodes are the typestate walker's business."""
    from .absint import fmt_loc
    reads = {}
    for i, e in enumerate(p.events):
        if e["ev"] == "ptr_read" and e.get("loc") is not None and not (e["loc"][0] == "H" and e["loc"][2] and e["loc"][2][-1] in ("key", "val", "0")):
            reads[e["loc"]] = i
        elif e["ev"] == "store" and e.get("via") == "ptr::write" and e.get("loc") in reads:
            del reads[e["loc"]]
        elif e["ev"] in ("drop", "drop_in_place") and e.get("loc") in reads and not e.get("moved"):
            g = F.fns.get(e.get("fn")) or f
            chk.violation(rule, "%s|%s" % (g["q"], fmt_loc(e["loc"])[:60]), "%s drops %s after its bits were copied out with ptr::read (line %s): the value now lives in two places - it is released twice, and the copy that stays behind dangles" % (
                g["q"], fmt_loc(e["loc"]), p.events[reads[e["loc"]]].get("ln")), g["span"]["file"], e.get("ln"), g["q"], ["root " + f["q"]], cfg)
            del reads[e["loc"]]
