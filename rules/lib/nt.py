"""Node typestate (NT): abstract state of every entry node along one abstract path.

link  : ('L', list) | 'U' | '?'          linked in `list` / unlinked / unknown
index : ('I', list) | 'N' | '?'          present in list.map under its own key / not indexed
own   : 'raw' | 'boxed' | 'freed' | '?'   heap node behind a raw pointer / re-boxed or moved into a local / deallocated
key,val : 'init' | 'moved'               MaybeUninit payload

The walker replays the events of a Path (see absint) and
  * checks the transition preconditions of DESIGN 3.1 (findings with rule ids C03.R1/R2, C02.R1/R2, C04.R2),
  * records a snapshot of all node states at every user-code site (for C18) and every callback site (C15),
  * checks the exit obligations (C03: linked xor indexed; C04: leaks / double frees / payload exactly once).
"""
from .absint import fmt_loc, fmt_val, root_of, subterms
from .effects import loc_root, val_root

ENTRY = "lru::raw::EntryNode"


def list_of_map(loc):
    """self.recent.map -> self.recent"""
    if loc[0] == "H" and loc[2] and loc[2][-1] == "map":
        return ("H", loc[1], loc[2][:-1])
    if loc[0] == "L" and loc[3] and loc[3][-1] == "map":
        return ("L", loc[1], loc[2], loc[3][:-1])
    if loc[0] == "T" and loc[2] and loc[2][-1] == "map":
        return ("T", loc[1], loc[2][:-1])
    return loc


def fmt_list(X):
    if X is None:
        return "?"
    s = fmt_loc(X)
    return s.lstrip("*") if s.startswith("*self") else s


class NState:
    __slots__ = ("link", "index", "own", "key", "val", "src", "kind", "hist", "handed", "origin")

    def __init__(self, link="?", index="?", own="?", src="", kind="entry"):
        self.link, self.index, self.own = link, index, own
        self.key = self.val = "init"
        self.src = src
        self.kind = kind
        self.hist = []
        self.handed = False
        self.origin = link[1] if isinstance(link, tuple) else None

    def copy(self):
        n = NState(self.link, self.index, self.own, self.src, self.kind)
        n.key, n.val, n.handed, n.origin = self.key, self.val, self.handed, self.origin
        return n

    def short(self):
        def f(x):
            return "%s(%s)" % (x[0], fmt_list(x[1])) if isinstance(x, tuple) else x
        return "link=%s index=%s own=%s key=%s val=%s" % (f(self.link), f(self.index), self.own, self.key, self.val)


class LinkPrims:
    """derive the link primitives = functions that store to EntryNode.prev/next; classify attach / detach / init"""

    def __init__(self, F):
        self.kind = {}
        self.head_only = {}
        for b in F.doc["bodies"]:
            stores = []
            for blk in b["blocks"]:
                for s in blk["s"]:
                    if s["k"] != "assign":
                        continue
                    pr = s["p"]["p"]
                    names = [e for e in pr if isinstance(e, dict) and "f" in e]
                    if names and names[-1]["n"] in ("prev", "next") and names[-1]["of"] == ENTRY and "deref" in pr:
                        stores.append(s)
            if not stores:
                continue
            # direct = (*param).next ; indirect = (*(*x).prev).next
            direct = self._stores_own_links(F, b) if b["arg_count"] == 2 else any(self._is_direct(b, s) for s in stores)
            mentions = set()
            for blk in b["blocks"]:
                for s in blk["s"]:
                    if s["k"] == "assign" and s["r"]["k"] == "use" and s["r"]["o"]["k"] in ("copy", "move"):
                        for e in s["r"]["o"]["p"]["p"]:
                            if isinstance(e, dict) and e.get("n") in ("head", "tail") and e.get("of", "").endswith("RawLRU"):
                                mentions.add(e["n"])
                # stores of head/tail as values or bases
                for s in blk["s"]:
                    if s["k"] == "assign":
                        for e in s["p"]["p"]:
                            if isinstance(e, dict) and e.get("n") in ("head", "tail") and e.get("of", "").endswith("RawLRU"):
                                mentions.add(e["n"])
            npar = b["arg_count"]
            calls = [blk["t"]["f"].get("q", "?") for blk in b["blocks"] if blk["t"]["k"] == "call"]
            if npar == 2 and not calls:
                k = "attach" if direct else "detach"
            elif all(c.split("::")[-1] in ("new", "into_raw", "new_sigil", "new_unchecked") for c in calls) and calls:
                k = "init"
            else:
                # stores links but also does other work (index / ownership events): not a primitive;
                # its stores are reported by C03.R4 wherever the function is reached
                continue
            self.kind[b["path"]] = k
            self.head_only[b["path"]] = mentions

    @staticmethod
    def _stores_own_links(F, b):
        """does the function store to the prev/next of the node it is given (attach) rather than only to its neighbours' (detach)?
        Decided on the abstract store events, so `(*node).next = ..` and `let n = &mut *node; n.next = ..` are the same thing."""
        from . import absint
        try:
            paths = absint.Interp(F, absint.DefaultPolicy(), absint.Models()).run(b["path"])
        except Exception:
            return None
        for p in paths:
            for e in p.events:
                if e["ev"] == "store" and e["loc"][0] == "H" and e["loc"][2][-1:] in (("prev",), ("next",)) and e["loc"][1] == ("param", 2, False):
                    return True
        return False

    def _is_direct(self, b, s):
        pr = s["p"]["p"]
        # place: (*_N).next with _N a parameter (or a copy of it) => exactly one deref
        return sum(1 for e in pr if e == "deref") == 1 and s["p"]["l"] <= b["arg_count"]


def payload_field(v):
    """(node, 'key'|'val') if value v is the content of a node's key/val field"""
    if not isinstance(v, tuple):
        return None
    if v[0] == "load":
        loc = v[1]
        if loc[0] == "H" and loc[2] and loc[2][-1] in ("key", "val") and len(loc[2]) == 1:
            return (loc[1], loc[2][-1])
    if v[0] == "proj" and len(v[2]) == 1 and v[2][0] in ("key", "val"):
        b = v[1]
        if isinstance(b, tuple) and b[0] == "load" and b[1][0] == "H" and b[1][2] == ():
            return (b[1][1], v[2][0])
    return None


def is_sentinel_ptr(v):
    """value is the content of a RawLRU.head / .tail field"""
    return isinstance(v, tuple) and v[0] == "load" and v[1][0] == "H" and v[1][2] and v[1][2][-1] in ("head", "tail")


def end_load(v):
    """(list, 'prev'|'next', sentinel_field) if v is a load of (*X.tail).prev / (*X.head).next"""
    if isinstance(v, tuple) and v[0] == "load":
        loc = v[1]
        if loc[0] == "H" and loc[2] == ("prev",) or loc[0] == "H" and loc[2] == ("next",):
            s = loc[1]
            if is_sentinel_ptr(s):
                sl = s[1]
                return (("H", sl[1], sl[2][:-1]), loc[2][0], sl[2][-1])
    return None


class NT:
    def __init__(self, F, prims, path, root_fn, teardown=False):
        self.F = F
        self.prims = prims
        self.path = path
        self.root = root_fn
        self.teardown = teardown
        self.nodes = {}
        self.findings = []
        self.snapshots = []      # (event index, event, {node: NState copy}, facts dict)
        self.detached = {}       # payload terms moved out by mem::replace -> consumed?
        self.nonempty = {}       # list -> bool (fact currently known)
        self.room = {}
        self.capge1 = {}
        self.lenver = {}
        self.events_on = []      # (idx, kind, list, node) list-level event log for routing rules
        self.cb_sites = []
        self.cb_absent = False   # a branch on this path found self.on_evict to be None
        self.departures = []     # (idx, node, how)
        self.skip_depth = None

    # ---- helpers
    def find(self, rule, ev, msg, node=None):
        self.findings.append({"rule": rule, "msg": msg, "ln": ev.get("ln"), "fn": ev.get("fn"), "node": fmt_val(node) if node is not None else None,
                              "ev": ev.get("ev"), "q": ev.get("q")})

    def node(self, n, ev=None, X=None, via=None):
        st = self.nodes.get(n)
        if st is not None:
            return st
        el = end_load(n)
        if n[0] == "alloc":
            st = NState("U", "N", "boxed", "Box::new")
        elif n[0] == "node":
            X = n[2] and list_of_map(n[2])
            st = NState(("L", X), ("I", X), "raw", "lookup in %s" % fmt_list(X))
        elif el is not None:
            X, which, sent = el
            st = NState(("L", X), ("I", X), "raw", "%s.%s.%s" % (fmt_list(X), sent, which))
            st.kind = "end"
            if not self.nonempty.get(X) and not self.implied_nonempty(X):
                st.kind = "end-unguarded"
        elif is_sentinel_ptr(n):
            st = NState("?", "N", "raw", "sentinel")
            st.kind = "sentinel"
        elif self.drained_from(n) is not None:
            # a node handed out by iterating `X.map.drain()`: it has just left the index of X, its links are untouched
            X = self.drained_from(n)
            st = NState(("L", X), "N", "raw", "drained from %s.map" % fmt_list(X))
            st.kind = "drained"
        else:
            st = NState("?", "?", "?", via or "unknown pointer")
            st.kind = "unknown"
        self.nodes[n] = st
        return st

    def drained_from(self, n):
        """X if n is the node component of an item of an iteration over X.map.drain() (outside teardown), else None"""
        if self.teardown:
            return None
        t = n
        while isinstance(t, tuple) and t[0] == "proj":
            t = t[1]
        if not (isinstance(t, tuple) and t[0] == "iter_item"):
            return None
        it = t[2]
        for _ in range(4):
            if not (isinstance(it, tuple) and it[0] == "call"):
                return None
            ce = [e for e in self.path.events if e["ev"] == "call" and e.get("id") == it[1]]
            if not ce or not ce[0]["args"]:
                return None
            if (ce[0]["q"] or "").split("::")[-1] == "drain":
                a = ce[0]["args"][0]
                if isinstance(a, tuple) and a[0] == "ref" and a[1][0] in ("H", "L", "T"):
                    m = a[1]
                    names = m[2] if m[0] in ("H", "T") else m[3]
                    if names and names[-1] == "map":
                        return list_of_map(m)
                return None
            it = ce[0]["args"][0]      # an adapter over the drain (map, enumerate, ...)
        return None

    def snapshot(self, i, ev, kind):
        self.snapshots.append((i, ev, kind, {n: s.copy() for n, s in self.nodes.items()}))

    # ---- facts from branch conditions
    def learn(self, ev):
        c = ev.get("cond")
        if not isinstance(c, tuple):
            return
        out = ev.get("outcome")
        if c[0] == "bin":
            truth = None
            if out is not None and not isinstance(out, tuple):
                truth = str(out) not in ("0", "false")
            elif isinstance(out, tuple) and out[0] == "not":
                truth = "0" in [str(x) for x in out[1]]
            if truth is None:
                return
            self.learn_cmp(c, truth)

    def learn_cmp(self, c, truth):
        op, a, b = c[1], c[2], c[3]
        neg = {"Eq": "Ne", "Ne": "Eq", "Lt": "Ge", "Ge": "Lt", "Gt": "Le", "Le": "Gt"}
        if op not in neg:
            return
        if not truth:
            op = neg[op]
        swap = {"Lt": "Gt", "Gt": "Lt", "Le": "Ge", "Ge": "Le", "Eq": "Eq", "Ne": "Ne"}

        def lenof(x):
            if isinstance(x, tuple) and x[0] == "len":
                X = list_of_map(x[1])
                if self.lenver.get(X, 0) == 0 or True:
                    return X, x[2]
            return None

        def capof(x):
            if isinstance(x, tuple) and x[0] == "load" and x[1][0] == "H" and x[1][2] and x[1][2][-1] == "cap":
                return ("H", x[1][1], x[1][2][:-1])
            return None

        def cint(x):
            if isinstance(x, tuple) and x[0] == "const":
                try:
                    return int(x[2])
                except (TypeError, ValueError):
                    return None
            return None
        for (x, y, o) in ((a, b, op), (b, a, swap[op])):
            lx = lenof(x)
            if lx is not None:
                X, ver = lx
                if ver != self.cur_lenver(X):
                    continue
                cy = cint(y)
                if cy is not None:
                    if (o == "Ne" and cy == 0) or (o == "Gt" and cy >= 0) or (o == "Ge" and cy >= 1) or (o == "Eq" and cy >= 1):
                        self.nonempty[X] = True
                    if (o == "Eq" and cy == 0) or (o == "Le" and cy == 0) or (o == "Lt" and cy <= 1):
                        self.nonempty[X] = False
                cy2 = capof(y)
                if cy2 is not None and cy2 == X:
                    if o in ("Lt",) or (o == "Ne"):
                        self.room[X] = True       # len < cap  (len != cap with len<=cap)
                    if o in ("Ge", "Eq", "Gt"):
                        self.room[X] = False
                        if self.capge1.get(X):
                            self.nonempty[X] = True
                # len > other unsigned quantity
                if o == "Gt" and cy is None:
                    self.nonempty[X] = True
            cx = capof(x)
            if cx is not None:
                cy = cint(y)
                if cy is not None and ((o == "Ne" and cy == 0) or (o == "Gt" and cy >= 0) or (o == "Ge" and cy >= 1)):
                    self.capge1[cx] = True
                    # a previously seen len>=cap fact now implies non-empty
            # (*X.tail).prev != X.head
            ex = end_load(x)
            if ex is not None and is_sentinel_ptr(y) and o == "Ne":
                X = ex[0]
                ysl = y[1]
                if ("H", ysl[1], ysl[2][:-1]) == X:
                    self.nonempty[X] = True
                    st = self.nodes.get(x)
                    if st is not None and st.kind == "end-unguarded":
                        st.kind = "end"

    def implied_nonempty(self, X):
        """len(X) >= cap(X) was established and cap(X) >= 1 (inner list of a composite cache: see C03.R2b; or an explicit cap != 0 guard)"""
        if self.room.get(X) is False and (self.capge1.get(X) or X[2] != ()):
            return True
        return False

    def cur_lenver(self, X):
        return self.lenver.get(X, 0)

    # ---- the walk
    def run(self):
        evs = self.path.events
        for i, e in enumerate(evs):
            k = e["ev"]
            d = e.get("depth", 0)
            if self.skip_depth is not None:
                if d > self.skip_depth:
                    continue
                if k == "exit" and d == self.skip_depth:
                    self.skip_depth = None
                    continue
                self.skip_depth = None
            if k == "branch":
                self.learn(e)
                if e.get("variant") == "None" and isinstance(e.get("cond"), tuple) and e["cond"][0] == "discr":
                    subj = e["cond"][1]
                    for t in subterms(subj):
                        if t[0] == "load" and t[1][0] in ("H", "L") and (t[1][2] if t[1][0] == "H" else t[1][3])[-1:] == ("on_evict",):
                            self.cb_absent = True
            elif k == "enter":
                pk = self.prims.kind.get(e["def"])
                if pk in ("attach", "detach"):
                    X = None
                    a0 = e["args"][0]
                    X = ("H", a0, ()) if not (isinstance(a0, tuple) and a0[0] == "ref") else a0[1]
                    n = e["args"][1]
                    self.link_event(i, e, pk, X, n)
                    self.skip_depth = d  # do not interpret the stores inside the primitive
                elif False:
                    pass
            elif k == "call":
                self.call_event(i, e)
            elif k == "from_raw":
                self.from_raw(i, e)
            elif k == "box_new":
                v = e["val"]
                if isinstance(v, tuple) and v[0] == "agg" and v[1] == "adt" and v[2][0] == ENTRY:
                    st = self.node(e["ptr"])
                    kv = v[3][v[4].index("key")] if "key" in v[4] else None
                    if isinstance(kv, tuple) and kv[0] == "uninit":
                        st.kind = "sentinel"   # EntryNode with uninitialised payload: a list sentinel
                    self.events_on.append((i, "alloc", None, e["ptr"]))
            elif k == "into_raw":
                st = self.nodes.get(e["ptr"])
                if st is not None:
                    st.own = "raw"
            elif k == "assume_init":
                self.consume(i, e, e["val"], "assume_init")
            elif k == "drop_in_place":
                v = e["val"]
                self.consume(i, e, v, "drop_in_place")
                if "K" in e.get("ty", "") or "V" in e.get("ty", ""):
                    self.snapshot(i, e, "user")
            elif k == "ptr_read":
                pf = payload_field(e["val"]) or self.loc_payload(e["loc"])
                if pf is not None:
                    n, f = pf
                    st = self.node(n, e)
                    self.use_as_entry(i, e, n, "its %s is read" % f)
                    st.hist.append("ptr::read of %s (ownership duplicated)" % f)
                    if getattr(st, f) == "moved":
                        self.find("C04.R2", e, "ptr::read of %s of node %s after it was moved out" % (f, fmt_val(n)), n)
                    setattr(st, f, "dup")
            elif k == "replace":
                self.replace(i, e)
            elif k == "swap":
                # mem::swap(&mut node.key, &mut local) is mem::replace(&mut node.key, local) with the old key left in the local: a node
                # being recycled. The value slot of a node whose key was just recycled on this path is treated the same way.
                recycled = False
                for loc, other, vown, vother in ((e["a"], e["b"], e["va"], e["vb"]), (e["b"], e["a"], e["vb"], e["va"])):
                    if loc[0] == "H" and loc[2] in (("key",), ("val",)) and not (other[0] == "H" and other[2] in (("key",), ("val",))):
                        rk = any(x[1] == "recycle-key" and x[3] == loc[1] for x in self.events_on)
                        if loc[2] == ("key",) or rk:
                            self.replace(i, dict(e, ev="replace", loc=loc, old=vown, new=vother))
                            recycled = True
                if recycled:
                    continue
                for loc, other in ((e["a"], e["b"]), (e["b"], e["a"])):
                    if loc[0] == "H" and loc[2] == ("val",):
                        self.events_on.append((i, "swap", None, loc[1], other))
                    if loc[0] == "H" and loc[2] == ("key",):
                        st = self.node(loc[1], e)
                        if st.index != "N":
                            self.find("C02.R1", e, "key of node %s swapped while the node is indexed (%s)" % (fmt_val(loc[1]), st.short()), loc[1])
            elif k == "store":
                self.store(i, e)
            elif k == "drop":
                self.drop(i, e)
        self.exit_check()
        return self

    def is_cb_wrapper(self, d):
        c = getattr(self.F, "_cb_wrappers", None)
        if c is None:
            c = set()
            for b in self.F.doc["bodies"]:
                for blk in b["blocks"]:
                    t = blk["t"]
                    if t["k"] == "call" and "q" in t["f"] and t["f"]["q"].endswith("OnEvictCallback::on_evict"):
                        c.add(b["path"])
            self.F._cb_wrappers = c
        return d in c

    def link_event(self, i, e, pk, X, n):
        st = self.node(n, e)
        self.use_as_entry(i, e, n, "passed to %s" % pk)
        if st.kind == "sentinel":
            self.find("C03.R2", e, "%s of a sentinel pointer %s" % (pk, fmt_val(n)), n)
        if pk == "detach":
            if st.link == "U":
                self.find("C03.R1", e, "detach of node %s which is already unlinked (%s): its stale prev/next neighbours would be rewired" % (fmt_val(n), st.short()), n)
            elif isinstance(st.link, tuple) and X is not None and st.link[1] != X and st.kind != "unknown":
                self.find("C03.R1", e, "detach on list %s of node %s linked in %s" % (fmt_list(X), fmt_val(n), fmt_list(st.link[1])), n)
            if st.own in ("freed",):
                self.find("C03.R1", e, "detach of node %s after it was freed" % fmt_val(n), n)
            st.link = "U"
            st.hist.append("detach")
        else:
            if isinstance(st.link, tuple):
                self.find("C03.R1", e, "attach of node %s which is still linked in %s (attach must follow detach)" % (fmt_val(n), fmt_list(st.link[1])), n)
            if st.own in ("freed", "boxed") and n[0] != "alloc":
                self.find("C03.R1", e, "attach of node %s whose storage is %s" % (fmt_val(n), st.own), n)
            st.link = ("L", X)
            st.hist.append("attach %s" % fmt_list(X))
            if X is not None:
                self.nonempty[X] = True
        self.events_on.append((i, pk, X, n))

    def use_as_entry(self, i, e, n, how):
        st = self.nodes.get(n)
        if st is not None and st.kind == "end-unguarded":
            el = end_load(n)
            X = el[0]
            if self.nonempty.get(X) or self.implied_nonempty(X):
                st.kind = "end"
                return
            self.find("C03.R2", e, "%s is used as an entry (%s) on a path with no non-emptiness fact for %s: it may be the sentinel, whose key/val are uninitialised"
                      % (st.src, how, fmt_list(X)), n)
            st.kind = "end"  # report once

    def call_event(self, i, e):
        hm = e.get("hm")
        if hm and (e.get("generic") or hm == "clear"):
            self.snapshot(i, e, "user")
            return
        if hm:
            X = list_of_map(e["recv"])
            ks = e["keysrc"]
            # key derived from a node: that node is being read as an entry
            own = None
            if isinstance(ks, tuple) and ks[0] == "ref" and ks[1][0] == "H" and ks[1][2][:1] == ("key",):
                own = ks[1][1]
                st = self.node(own, e)
                self.use_as_entry(i, e, own, "its key is hashed for %s.map.%s" % (fmt_list(X), hm))
                if st.key != "init" or st.own == "freed":
                    self.find("C03.R1", e, "key of node %s is read (hashed) while %s" % (fmt_val(own), st.short()), own)
            # stack key moved?
            if isinstance(ks, tuple) and ks[0] == "ref" and ks[1][0] == "L":
                if self.path.st is not None and False:
                    pass
            self.snapshot(i, e, "user")
            if hm in ("get", "get_mut", "contains_key"):
                if e.get("present") and "node" in e:
                    n = e["node"]
                    st = self.node(n, e, X)
                    self.nonempty[X] = True
                    self.events_on.append((i, "lookup-hit", X, n, hm))
                else:
                    self.events_on.append((i, "lookup-miss" if not e.get("present") else "lookup-hit", X, None, hm))
            elif hm == "remove":
                if e.get("present"):
                    n = e["node"]
                    st = self.node(n, e, X)
                    if st.index == "N":
                        self.find("C03.R1", e, "map.remove returned node %s which is not indexed (%s)" % (fmt_val(n), st.short()), n)
                    st.index = "N"
                    st.hist.append("map.remove from %s" % fmt_list(X))
                    self.lenver[X] = self.lenver.get(X, 0) + 1
                    self.nonempty.pop(X, None)
                    self.room[X] = True
                    self.events_on.append((i, "unindex", X, n))
                else:
                    self.events_on.append((i, "remove-miss", X, None))
            elif hm == "insert":
                n = e["value"]
                st = self.node(n, e, X)
                kp = e["keysrc"]
                ok_key = isinstance(kp, tuple) and kp[0] == "ref" and kp[1][0] == "H" and kp[1][1] == n and kp[1][2][:1] == ("key",)
                if not ok_key:
                    self.find("C02.R2", e, "node %s is indexed in %s under a key pointer %s that does not point at its own key" % (fmt_val(n), fmt_list(X), fmt_val(kp)), n)
                if isinstance(st.index, tuple):
                    self.find("C03.R1", e, "node %s inserted into %s.map while still indexed in %s" % (fmt_val(n), fmt_list(X), fmt_list(st.index[1])), n)
                if st.key != "init":
                    self.find("C03.R1", e, "node %s indexed while its key is moved-out" % fmt_val(n), n)
                if st.own in ("freed",):
                    self.find("C03.R1", e, "node %s indexed after it was freed" % fmt_val(n), n)
                had_room = self.room.get(X)
                st.index = ("I", X)
                st.hist.append("map.insert into %s" % fmt_list(X))
                self.lenver[X] = self.lenver.get(X, 0) + 1
                self.nonempty[X] = True
                self.events_on.append((i, "index", X, n, had_room, e.get("slack")))
                self.room.pop(X, None)
            return
        if (e.get("q") or "").endswith("OnEvictCallback::on_evict"):
            self.cb_sites.append((i, e))
            self.snapshot(i, e, "cb")
        if e.get("user") or self.is_user_call(e):
            self.snapshot(i, e, "user")

    def is_user_call(self, e):
        f = e.get("f") or {}
        if "indirect" in f:
            return True
        if f.get("resolved") is None and f.get("trait"):
            return True
        q = e.get("q") or ""
        if q.endswith("OnEvictCallback::on_evict") or q == "<callback>":
            return True
        return False

    def from_raw(self, i, e):
        n = e["ptr"]
        st = self.node(n, e)
        if st.kind == "sentinel":
            if not self.teardown:
                self.find("C03.R4", e, "Box::from_raw of a sentinel outside Drop", n)
            st.own = "boxed"
            self.events_on.append((i, "free-sentinel", None, n))
            return
        self.use_as_entry(i, e, n, "re-boxed")
        if not self.teardown:
            if isinstance(st.link, tuple):
                self.find("C03.R1", e, "Box::from_raw of node %s which is still linked in %s: a freed node stays reachable from the list" % (fmt_val(n), fmt_list(st.link[1])), n)
            if isinstance(st.index, tuple):
                self.find("C03.R1", e, "Box::from_raw of node %s which is still indexed in %s.map" % (fmt_val(n), fmt_list(st.index[1])), n)
        if st.own in ("boxed", "freed"):
            self.find("C04.R1", e, "node %s re-boxed twice (double free)" % fmt_val(n), n)
        st.own = "boxed"
        st.hist.append("Box::from_raw")
        self.departures.append((i, n, "reboxed"))
        self.events_on.append((i, "rebox", None, n))

    def loc_payload(self, loc):
        if loc is None:
            return None
        if loc[0] == "H" and loc[2] and loc[2][0] in ("key", "val") and len(loc[2]) == 1:
            return (loc[1], loc[2][0])
        return None

    def consume(self, i, e, v, how):
        if v in self.detached:
            if self.detached[v]:
                self.find("C04.R2", e, "payload moved out by mem::replace is consumed twice")
            self.detached[v] = True
            return
        pf = payload_field(v)
        if pf is None and how == "drop_in_place":
            pf = self.loc_payload(e.get("loc"))
            if pf is None and e.get("loc") is not None:
                pf = payload_field(self.path_read(e["loc"]))
        if pf is None:
            return
        n, f = pf
        st = self.node(n, e)
        self.use_as_entry(i, e, n, "its %s is moved out" % f)
        if st.kind == "sentinel":
            self.find("C03.R2", e, "payload %s of a sentinel is read" % f, n)
        cur = getattr(st, f)
        if cur == "moved":
            self.find("C04.R2", e, "%s of node %s is moved out / dropped twice (%s)" % (f, fmt_val(n), how), n)
        if st.own == "raw" and (isinstance(st.link, tuple) or isinstance(st.index, tuple)):
            self.find("C18.R1.3", e, "%s of node %s is moved out while the node is still reachable (%s)" % (f, fmt_val(n), st.short()), n)
        setattr(st, f, "moved")
        st.hist.append("%s of %s" % (how, f))

    def path_read(self, loc):
        st = self.path.st
        if st is None:
            return None
        return st.store.get(loc)

    def replace(self, i, e):
        loc = e["loc"]
        pf = self.loc_payload(loc)
        if pf is None:
            return
        n, f = pf
        st = self.node(n, e)
        self.use_as_entry(i, e, n, "its %s is replaced" % f)
        if f == "key" and st.index != "N":
            self.find("C02.R1", e, "key of node %s is overwritten while the node is still indexed (%s): the index entry would point at the new key" % (fmt_val(n), st.short()), n)
        if getattr(st, f) == "moved":
            self.find("C04.R2", e, "mem::replace reads %s of node %s which was already moved out" % (f, fmt_val(n)), n)
        self.detached[e["old"]] = False
        st.hist.append("recycle %s" % f)
        if f == "key":
            self.departures.append((i, n, "recycled"))
        self.events_on.append((i, "recycle-" + f, None, n, e["old"], e["new"]))

    def store(self, i, e):
        loc = e["loc"]
        if loc[0] != "H":
            return
        pr = loc[2]
        if pr and pr[-1] in ("prev", "next"):
            fn = e.get("fn")
            if self.prims.kind.get(fn) is None:
                self.find("C03.R4", e, "store to a prev/next link (%s) outside the link primitives" % fmt_loc(loc))
            return
        if pr[:1] in (("key",), ("val",)) and len(pr) == 1 and loc[1][0] != "alloc" and not is_sentinel_ptr(loc[1]):
            st = self.node(loc[1], e)
            f = pr[0]
            if f == "key" and st.index != "N":
                self.find("C02.R1", e, "key of node %s is assigned while the node is indexed (%s)" % (fmt_val(loc[1]), st.short()), loc[1])
            cur = getattr(st, f)
            if cur == "init" and st.kind not in ("unknown",):
                self.find("C04.R2", e, "%s of node %s is overwritten without moving the old %s out (MaybeUninit assignment does not drop: leak)" % (f, fmt_val(loc[1]), f), loc[1])
            setattr(st, f, "init")
            st.hist.append("overwrite %s" % f)
            if f == "key":
                self.departures.append((i, loc[1], "recycled"))
        if pr and pr[-1] in ("head", "tail") and not self.prims.kind.get(e.get("fn")) == "init":
            self.find("C03.R4", e, "store to %s outside the constructor of the sentinels" % fmt_loc(loc))

    def drop(self, i, e):
        ty = e.get("ty", "")
        v = e.get("val")
        if ty.startswith("alloc::boxed::Box<" + ENTRY):
            if isinstance(v, tuple) and v[0] == "moved":
                v = v[1]
            n = v[1] if isinstance(v, tuple) and v[0] == "boxed" else None
            if n is not None:
                st = self.node(n, e)
                if st.own == "freed":
                    self.find("C04.R1", e, "node %s deallocated twice" % fmt_val(n), n)
                st.own = "freed"
                st.hist.append("dealloc")
            return
        # a payload moved out of a node by mem::replace / mem::swap and then dropped (alone or inside a PutResult / tuple) is consumed
        if self.detached and isinstance(v, tuple) and not e.get("moved"):
            inner = set(subterms(v))
            for dv in self.detached:
                if dv in inner and not self.detached[dv]:
                    self.detached[dv] = True
        # drops of K / V / (K,V) / PutResult values run user Drop code
        if any(t in ty for t in ("K", "V")) and not ty.startswith("&"):
            self.snapshot(i, e, "user-drop")

    # ---- exit obligations
    def exit_check(self):
        ret = self.path.ret
        retterms = set(t for t in subterms(ret) if isinstance(t, tuple)) if isinstance(ret, tuple) else set()
        last = self.path.events[-1] if self.path.events else {"ln": None, "fn": self.root}
        endev = {"ln": last.get("ln"), "fn": self.root, "ev": "exit"}
        for n, st in self.nodes.items():
            if st.kind in ("unknown", "sentinel"):
                continue
            handed = n in retterms
            L = isinstance(st.link, tuple)
            I = isinstance(st.index, tuple)
            if st.own == "raw":
                if L != I and not self.teardown:
                    self.find("C03.R1", endev, "node %s leaves the function linked=%s indexed=%s (list and index disagree): %s" % (fmt_val(n), L, I, "; ".join(st.hist)), n)
                if not L and not I and not handed:
                    self.find("C04.R1", endev, "node %s is taken out of its list and neither re-inserted, returned nor freed (leak): %s [source: %s]"
                              % (fmt_val(n), "; ".join(st.hist), st.src), n)
                if (L or I) and (st.key != "init" or st.val != "init"):
                    self.find("C04.R2", endev, "node %s stays in the cache with a moved-out or duplicated payload (%s)" % (fmt_val(n), st.short()), n)
            elif st.own in ("boxed", "freed"):
                if (L or I) and not self.teardown:
                    self.find("C03.R1", endev, "freed node %s is still %s" % (fmt_val(n), "linked" if L else "indexed"), n)
                if n[0] == "alloc" and st.own == "boxed":
                    continue  # a Box never turned raw: owned by Rust
                for f in ("key", "val"):
                    if getattr(st, f) == "dup":
                        continue  # read out with ptr::read before the node was freed: the copy is the owner
                    if getattr(st, f) == "init":
                        self.find("C04.R2", endev, "%s of freed node %s is never moved out or dropped (leak of the %s)" % (f, fmt_val(n), f), n)
        returned = set(subterms(self.path.ret)) if isinstance(self.path.ret, tuple) else set()
        for v, used in self.detached.items():
            if not used and v not in returned:      # handed to the caller inside the return value = consumed
                self.find("C04.R2", endev, "payload moved out of a recycled node by mem::replace is never consumed (leak)")
