"""Classification of path events as mutations of memory reachable from the receiver."""
from .absint import fmt_loc, fmt_val

# external APIs that mutate their receiver / target (suffix match on the qualified name)
MUTATING_SUFFIXES = (
    "HashMap::insert", "HashMap::remove", "HashMap::remove_entry", "HashMap::clear", "HashMap::drain", "HashMap::retain",
    "HashMap::shrink_to_fit", "HashMap::shrink_to", "HashMap::reserve", "HashMap::entry", "HashMap::extend", "HashMap::extract_if",
    "HashMap::try_insert", "HashMap::values_mut", "HashMap::iter_mut", "HashMap::get_many_mut",
    "HashSet::insert", "HashSet::remove", "HashSet::clear",
    "Vec::push", "Vec::pop", "Vec::clear", "Vec::resize", "Vec::truncate", "Vec::insert", "Vec::remove", "Vec::swap_remove",
    "Vec::extend", "Vec::append", "Vec::drain", "Vec::retain", "Vec::set_len", "Vec::as_mut_ptr", "Vec::as_mut_slice",
    "Vec::extend_from_slice", "Vec::resize_with", "Vec::dedup",
    "<impl [T]>::fill", "<impl [T]>::iter_mut", "<impl [T]>::swap", "<impl [T]>::copy_from_slice", "<impl [T]>::reverse",
    "<impl [T]>::sort", "<impl [T]>::rotate_left", "<impl [T]>::rotate_right", "<impl [T]>::as_mut_ptr", "<impl [T]>::get_mut",
    "IndexMut>::index_mut", "IndexMut::index_mut", "DerefMut>::deref_mut",
    "::store", "::swap", "::fetch_add", "::fetch_sub", "::fetch_and", "::fetch_or", "::fetch_xor", "::fetch_max", "::fetch_min",
    "::compare_exchange", "::compare_exchange_weak", "::fetch_update", "::get_mut",
    "Cell::set", "Cell::replace", "RefCell::borrow_mut", "UnsafeCell::get",
    "core::mem::forget", "alloc::boxed::Box::leak",
)
# &mut-taking external APIs that do not change the receiver (they only hand out access)
NONMUTATING_MUT = ("HashMap::get_mut", "Option::as_mut", "Option::as_deref_mut", "Iterator::next", "DoubleEndedIterator::next_back")
ATOMIC_HEADS = ("core::sync::atomic::Atomic",)


def loc_root(loc, depth=0):
    """('param', i) | ('alloc', id) | ('local',) | ('unknown',) - where the memory of a location lives"""
    if loc is None or depth > 12:
        return ("unknown",)
    if loc[0] in ("L", "T"):
        return ("local",)
    return val_root(loc[1], depth + 1)


def val_root(v, depth=0):
    if not isinstance(v, tuple) or depth > 12:
        return ("unknown",)
    k = v[0]
    if k == "param":
        return ("param", v[1])
    if k == "alloc":
        return ("alloc", v[1])
    if k == "ref":
        return loc_root(v[1], depth + 1)
    if k == "load":
        return loc_root(v[1], depth + 1)
    if k == "node":
        return loc_root(v[2], depth + 1)
    if k in ("proj",):
        return val_root(v[1], depth + 1)
    if k == "cast":
        return val_root(v[3], depth + 1)
    if k == "boxed":
        return val_root(v[1], depth + 1)
    if k == "iter_item":
        return val_root(v[2], depth + 1)
    if k == "agg":
        for x in v[3]:
            r = val_root(x, depth + 1)
            if r[0] == "param":
                return r
        return ("local",)
    if k in ("const", "unit", "uninit", "default", "fn"):
        return ("local",)
    return ("unknown",)


def _external(root):
    return root[0] in ("param", "unknown")


def mutation_events(path, own_fields_ok=False, state_param=1):
    """yield dicts describing every event of `path` that mutates memory not allocated on the path itself"""
    out = []
    for e in path.events:
        k = e["ev"]
        if k == "store":
            loc = e["loc"]
            r = loc_root(loc)
            if not _external(r):
                continue
            if own_fields_ok and loc[0] == "H" and isinstance(loc[1], tuple) and loc[1][0] == "param" and loc[1][1] == state_param:
                continue  # the iterator's own cursor fields
            out.append(_m("store", loc_field(loc), "store to %s := %s" % (fmt_loc(loc), fmt_val(e["val"])), e))
        elif k == "swap":
            for loc in (e["a"], e["b"]):
                if _external(loc_root(loc)):
                    out.append(_m("swap", loc_field(loc), "mem::swap touching %s" % fmt_loc(loc), e))
                    break
        elif k == "replace":
            if _external(loc_root(e["loc"])):
                out.append(_m("replace", loc_field(e["loc"]), "mem::replace of %s" % fmt_loc(e["loc"]), e))
        elif k == "drop_in_place":
            if _external(loc_root(e["loc"])):
                out.append(_m("drop_in_place", loc_field(e["loc"]), "drop_in_place of %s" % fmt_loc(e["loc"]), e))
        elif k == "from_raw":
            if _external(val_root(e["ptr"])):
                out.append(_m("from_raw", "node", "Box::from_raw(%s)" % fmt_val(e["ptr"]), e))
        elif k == "assume_init":
            pass
        elif k == "call":
            if e.get("hm") in ("insert", "remove"):
                out.append(_m("map", e["hm"], "hash index %s on %s" % (e["hm"], fmt_loc(e["recv"])), e))
                continue
            if "hm" in e:
                continue
            q = e["q"] or ""
            ext_args = [a for a in e["args"] if isinstance(a, tuple) and a[0] in ("ref", "param", "load", "node", "proj") and _external(val_root(a))]
            if e.get("local") and not e.get("user"):
                # same-crate callee that was not inlined: cannot happen under the full-inline policy
                out.append(_m("opaque-local", q, "same-crate callee %s was not analysed" % q, e))
                continue
            if any(q.endswith(s) for s in MUTATING_SUFFIXES):
                if q.endswith("::get_mut") and any(q.endswith(s) for s in NONMUTATING_MUT):
                    continue
                if q.endswith("::swap") and not (("Atomic" in q) or "[T]" in q):
                    pass
                if ext_args or not e["args"]:
                    out.append(_m("call", q.split("::")[-1], "call to mutating API %s(%s)" % (q, ", ".join(fmt_val(a) for a in e["args"][:2])), e))
    return out


def loc_field(loc):
    proj = loc[3] if loc[0] == "L" else loc[2]
    names = [p for p in proj if isinstance(p, str)]
    return names[-1] if names else "*"


def _m(kind, what, text, e):
    return {"kind": kind, "what": what, "text": text, "ln": e.get("ln"), "fn": e.get("fn"),
            "witness": ["%s (line %s)" % (e.get("fn"), e.get("ln"))]}
