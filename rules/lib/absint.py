"""Path-sensitive abstract interpretation of the MIR facts (no solver, no concrete execution).

For one root function the interpreter enumerates every acyclic path of the *inlined* control-flow
graph (same-crate callees and the closures handed to Option/Result/Iterator combinators are spliced
in; loops are cut after one iteration) and carries an abstract store of symbolic terms along each
path.  The result is a list of `Path` objects: the ordered events of the path (calls with their
abstract receiver/arguments, stores through pointers, branch facts, asserts, drops) and the abstract
return value.  Rules are queries over these paths: "on every path that contains A, B happens before
C", "the returned value derives from X", "at every user-code call the node state is ...".

Abstract values are hashable tuples:
  ('param', i)                      initial value of argument i of the root
  ('const', ty, v)                  literal
  ('ref', loc)                      reference / raw pointer to a location
  ('agg', kind, name, vals, names)  tuple / struct / enum variant / closure built on this path
  ('call', id, q)                   opaque result of call number `id` on this path
  ('load', loc, epoch)              opaque content of a heap location
  ('proj', v, path)                 projection out of an opaque value
  ('bin'|'un'|'cast', ...)          arithmetic over the above
  ('discr', v)                      discriminant of an opaque enum value
  ('alloc', id)                     pointer to a heap object allocated on this path (Box::new)
  ('boxed', p)                      a Box owning the object p points to
  ('node', id, listloc, keysrc)     entry node found by a hash-map lookup
  ('moved', v) / ('uninit',)        markers
Locations: ('L', frame, local, proj)  |  ('H', pointer_value, proj)  |  ('T', id, proj)
"""
import itertools
import re

from .facts import AnalysisError

MAX_PATHS = 60000
MAX_STEPS = 4000000


class Path:
    __slots__ = ("events", "ret", "facts", "variants", "st")

    def __init__(self, events, ret, facts, variants, st=None):
        self.events = events
        self.ret = ret
        self.facts = facts
        self.variants = variants
        self.st = st


class State:
    __slots__ = ("store", "variants", "events", "facts", "ids", "epoch", "member", "visits", "steps", "lenver", "moved", "slack", "lencount", "subs", "empty", "sumge", "roomx", "nonempty")

    def __init__(self):
        self.store = {}
        self.variants = {}
        self.events = []
        self.facts = []
        self.ids = [0]
        self.epoch = 0
        self.member = {}
        self.visits = {}
        self.steps = None
        self.lenver = {}
        self.moved = {}
        self.slack = {}
        self.lencount = {}
        self.subs = {}
        self.empty = {}
        self.sumge = {}
        self.roomx = {}
        self.nonempty = {}

    def fork(self):
        s = State.__new__(State)
        s.store = dict(self.store)
        s.variants = dict(self.variants)
        s.events = list(self.events)
        s.facts = list(self.facts)
        s.ids = self.ids  # shared counter: ids are unique across all paths of a run
        s.epoch = self.epoch
        s.member = dict(self.member)
        s.visits = dict(self.visits)
        s.steps = self.steps
        s.lenver = dict(self.lenver)
        s.moved = dict(self.moved)
        s.slack = dict(self.slack)
        s.lencount = dict(self.lencount)
        s.subs = dict(self.subs)
        s.empty = dict(self.empty)
        s.sumge = dict(self.sumge)
        s.roomx = dict(self.roomx)
        s.nonempty = dict(self.nonempty)
        return s

    def fresh(self):
        self.ids[0] += 1
        return self.ids[0]


class Frame:
    __slots__ = ("fid", "body", "fpath", "parent", "call_unwind", "depth")

    def __init__(self, fid, body, parent, call_unwind, depth):
        self.fid = fid
        self.body = body
        self.fpath = body["path"]
        self.parent = parent
        self.call_unwind = call_unwind  # (parent frame, cleanup bb) of the call that created this frame
        self.depth = depth


# ---------------------------------------------------------------- helpers on values / locations
def mkref(loc):
    if loc[0] == "H" and loc[2] == ():
        return loc[1]
    return ("ref", loc)


def deref_loc(v):
    if isinstance(v, tuple):
        if v[0] == "ref":
            return v[1]
        if v[0] == "boxed":
            return ("H", v[1], ())
    return ("H", v, ())


def loc_add(loc, elem):
    return (loc[0], loc[1], loc[2] + (elem,)) if loc[0] != "L" else ("L", loc[1], loc[2], loc[3] + (elem,))


def loc_proj(loc):
    return loc[3] if loc[0] == "L" else loc[2]


def loc_base(loc):
    return ("L", loc[1], loc[2], ()) if loc[0] == "L" else (loc[0], loc[1], ())


def loc_with_proj(loc, proj):
    return ("L", loc[1], loc[2], proj) if loc[0] == "L" else (loc[0], loc[1], proj)


def is_const(v):
    return isinstance(v, tuple) and v[0] == "const"


def const_int(v):
    if is_const(v) and v[2] is not None:
        try:
            return int(v[2])
        except (TypeError, ValueError):
            return None
    return None


def fmt_loc(loc, interp=None):
    """human readable access path: self.recent.map, (*node#3).key ..."""
    if loc[0] == "L":
        base = "_%d@%d" % (loc[2], loc[1])
        proj = loc[3]
    elif loc[0] == "T":
        base = "tmp%d" % loc[1]
        proj = loc[2]
    else:
        base = fmt_val(loc[1])
        proj = loc[2]
        if proj:
            base = base if base.startswith("self") or base.startswith("arg") else "(*%s)" % base
        else:
            base = "*%s" % base
    for e in proj:
        if isinstance(e, tuple):
            if e[0] == "dc":
                base = "(%s as %s)" % (base, e[1])
            else:
                base += "[%s]" % (fmt_val(e[1]) if len(e) > 1 else "?")
        else:
            base += "." + str(e)
    return base


def fmt_val(v, depth=0):
    if not isinstance(v, tuple):
        return str(v)
    if depth > 6:
        return "…"
    k = v[0]
    if k == "param":
        return "self" if v[1] == 1 and v[2] else "arg%d" % v[1]
    if k == "const":
        return str(v[2])
    if k == "ref":
        return "&" + fmt_loc(v[1])
    if k == "agg":
        name = v[2] if isinstance(v[2], str) else "::".join(x for x in (v[2] or ()) if x)
        return "%s(%s)" % (name or "", ", ".join(fmt_val(x, depth + 1) for x in v[3]))
    if k == "call":
        return "%s#%d" % (v[2].split("::")[-1], v[1])
    if k == "load":
        return "[%s]@%d" % (fmt_loc(v[1]), v[2])
    if k == "proj":
        s = fmt_val(v[1], depth + 1)
        for e in v[2]:
            s += (" as %s" % e[1]) if isinstance(e, tuple) else "." + str(e)
        return s
    if k == "bin":
        return "(%s %s %s)" % (fmt_val(v[2], depth + 1), v[1], fmt_val(v[3], depth + 1))
    if k == "un":
        return "%s(%s)" % (v[1], fmt_val(v[2], depth + 1))
    if k == "cast":
        return "(%s as %s)" % (fmt_val(v[3], depth + 1), v[2])
    if k == "discr":
        return "discr(%s)" % fmt_val(v[1], depth + 1)
    if k == "node":
        return "node#%d" % v[1]
    if k == "alloc":
        return "alloc#%d" % v[1]
    if k == "boxed":
        return "Box(%s)" % fmt_val(v[1], depth + 1)
    if k == "len":
        return "len(%s)@%d" % (fmt_loc(v[1]), v[2])
    return "%s(%s)" % (k, ",".join(fmt_val(x, depth + 1) for x in v[1:]))


def root_of(v):
    """peel projections/refs to the underlying pointer or opaque root of a value"""
    while isinstance(v, tuple):
        if v[0] == "ref":
            loc = v[1]
            if loc[0] == "H":
                v = loc[1]
                continue
            return v
        if v[0] == "proj":
            v = v[1]
            continue
        if v[0] == "cast":
            v = v[3]
            continue
        return v
    return v


def subterms(v):
    """v and every tuple nested in it (value tuples start with a str tag; plain tuples are containers)"""
    if not isinstance(v, tuple):
        return
    tagged = bool(v) and isinstance(v[0], str)
    if tagged:
        yield v
    for x in (v[1:] if tagged else v):
        if isinstance(x, tuple):
            for y in subterms(x):
                yield y


class Interp:
    """One interpreter per (facts, policy).  policy.inline(callee_fn, frame_depth) -> bool"""

    def __init__(self, facts, policy=None, models=None):
        self.facts = facts
        self.policy = policy or DefaultPolicy()
        self.models = models or Models()
        self.paths = None
        self.aborted = []
        self.blind = []         # (callee, function, closure defs, line): closures handed to unmodelled functions
        self.unwound = []       # event sequences of unwinding out of a user-code site through a drop guard (see explore_unwind)
        self._unwinding = False
        self._guards = None
        self._reach = {}
        self.steps = 0
        self.truncated = False

    # ------------------------------------------------------------------ entry
    def run(self, fpath, args=None):
        body = self.facts.body(fpath)
        if body is None:
            raise AnalysisError("no MIR body for %s" % fpath)
        st = State()
        st.steps = [0]
        frame = Frame(0, body, None, None, 0)
        n = body["arg_count"]
        fn = self.facts.fns.get(fpath, {})
        has_self = bool(fn.get("has_self"))
        for i in range(1, n + 1):
            v = args[i - 1] if args else ("param", i, has_self and i == 1)
            st.store[("L", 0, i, ())] = v
        self.paths = []
        self.aborted = []       # paths that end in a certain panic (unwrap of None/Err, diverging call)
        self.root = fpath
        owner = fn
        while owner.get("kind") == "Closure" and owner.get("parent") in self.facts.fns:
            owner = self.facts.fns[owner["parent"]]
        self.root_adt = (self.facts.impl_of(owner) or {}).get("self_head") if owner else None
        for (s2, ret) in self.exec_body(st, frame, 0):
            self.paths.append(Path(s2.events, ret, s2.facts, s2.variants, s2))
            if len(self.paths) > MAX_PATHS:
                raise AnalysisError("more than %d paths in %s" % (MAX_PATHS, fpath))
        return self.paths

    # ------------------------------------------------------------------ store
    def read(self, st, loc):
        v = st.store.get(loc)
        if v is not None:
            return v
        proj = loc_proj(loc)
        # a prefix holding an aggregate / opaque value?
        for cut in range(len(proj) - 1, -1, -1):
            pre = loc_with_proj(loc, proj[:cut])
            pv = st.store.get(pre)
            if pv is not None:
                return self.project(st, pv, proj[cut:])
        if loc[0] == "L":
            return ("uninit", loc)
        if loc[0] == "H":
            base = loc[1]
            # heap object allocated on this path whose fields were stored individually
            return ("load", loc, self.loc_epoch(st, loc))
        return ("load", loc, 0)

    def loc_epoch(self, st, loc):
        proj = loc_proj(loc)
        if proj and proj[-1] in ("prev", "next"):
            return st.epoch
        return st.lenver.get(("w", loc), 0)

    def project(self, st, v, proj):
        for i, e in enumerate(proj):
            if isinstance(v, tuple) and v[0] == "agg":
                names = v[4]
                if isinstance(e, tuple) and e[0] == "dc":
                    continue  # downcast of a known variant: stay
                if e in names:
                    v = v[3][names.index(e)]
                    continue
                return ("proj", v, tuple(proj[i:]))
            if isinstance(v, tuple) and v[0] == "boxed":
                # Box<T> is lowered to .0.pointer (Unique -> NonNull -> *const T)
                if e in ("0", "pointer"):
                    if e == "pointer":
                        v = v[1]
                    continue
            if isinstance(v, tuple) and v[0] == "moved":
                v = v[1]
                return self.project(st, v, proj[i:])
            if isinstance(v, tuple) and v[0] == "proj":
                return ("proj", v[1], v[2] + tuple(proj[i:]))
            return ("proj", v, tuple(proj[i:]))
        return v

    def write(self, st, loc, val, event=None):
        proj = loc_proj(loc)
        # functional update of an aggregate held by a prefix
        for cut in range(len(proj) - 1, -1, -1):
            pre = loc_with_proj(loc, proj[:cut])
            pv = st.store.get(pre)
            if pv is not None and isinstance(pv, tuple) and pv[0] == "agg":
                st.store[pre] = self.agg_update(pv, proj[cut:], val)
                break
        else:
            # drop stale sub-entries (entries stored under a longer projection of the same base)
            base = loc_base(loc)
            subs = st.subs.get(base)
            if subs:
                n = len(proj)
                keep = []
                for k in subs:
                    if k != loc and loc_proj(k)[:n] == proj:
                        st.store.pop(k, None)
                    else:
                        keep.append(k)
                st.subs[base] = tuple(keep)
            if proj:
                cur = st.subs.get(base, ())
                if loc not in cur:
                    st.subs[base] = cur + (loc,)
            st.store[loc] = val
        if loc[0] == "H":
            st.lenver[("w", loc)] = st.lenver.get(("w", loc), 0) + 1
            if proj and proj[-1] in ("prev", "next"):
                st.epoch += 1

    def agg_update(self, agg, proj, val):
        if not proj:
            return val
        e = proj[0]
        if isinstance(e, tuple) and e[0] == "dc":
            return self.agg_update(agg, proj[1:], val)
        names = agg[4]
        if isinstance(agg, tuple) and agg[0] == "agg" and e in names:
            i = names.index(e)
            vals = list(agg[3])
            vals[i] = self.agg_update(vals[i], proj[1:], val) if len(proj) > 1 else val
            return ("agg", agg[1], agg[2], tuple(vals), names)
        return agg

    # ------------------------------------------------------------------ evaluation
    def eval_place(self, st, fr, p):
        loc = ("L", fr.fid, p["l"], ())
        for e in p["p"]:
            if e == "deref":
                v = self.read(st, loc)
                if isinstance(v, tuple) and v[0] == "moved":
                    v = v[1]
                loc = deref_loc(v)
            elif isinstance(e, dict):
                if "f" in e:
                    loc = loc_add(loc, e["n"])
                elif "dc" in e:
                    loc = loc_add(loc, ("dc", e["dc"]))
                elif "idx" in e:
                    iv = self.read(st, ("L", fr.fid, e["idx"], ()))
                    loc = loc_add(loc, ("idx", iv))
                elif "cidx" in e:
                    loc = loc_add(loc, ("idx", ("const", "usize", str(e["cidx"]))))
                else:
                    loc = loc_add(loc, ("sub",))
            else:
                loc = loc_add(loc, str(e))
        return loc

    def eval_operand(self, st, fr, o):
        k = o["k"]
        if k == "copy":
            v = self.read(st, self.eval_place(st, fr, o["p"]))
            if isinstance(v, tuple) and v[0] == "moved":
                return v[1]
            return v
        if k == "move":
            loc = self.eval_place(st, fr, o["p"])
            v = self.read(st, loc)
            if isinstance(v, tuple) and v[0] == "moved":
                return v[1]
            if loc[0] == "L" and not o["p"]["p"]:
                st.moved[loc] = True
            return v
        if k == "const":
            if "fn" in o:
                return ("fn", o["fn"]["q"], o["fn"]["def"])
            if "promoted" in o:
                v = self.eval_promoted(st, fr, o["promoted"])
                if v is not None:
                    return v
            return ("const", o["ty"], o.get("int", o.get("float", o.get("v"))))
        return ("unknown", "operand")

    def eval_promoted(self, st, fr, path):
        """a promoted constant is a small straight-line body (aggregate / const fn calls): run it in a frame of its own"""
        body = getattr(self.facts, "promoted", {}).get(path)
        if body is None:
            return None
        fid = st.fresh()
        nf = Frame(fid, body, fr, None, fr.depth + 1)
        outs = list(self.exec_body(st, nf, 0))
        if len(outs) != 1 or outs[0][0] is not st:
            return None
        return outs[0][1]

    def eval_rvalue(self, st, fr, r, site):
        k = r["k"]
        if k == "use":
            return self.eval_operand(st, fr, r["o"])
        if k in ("ref", "rawptr"):
            return mkref(self.eval_place(st, fr, r["p"]))
        if k == "cast":
            v = self.eval_operand(st, fr, r["o"])
            ck = r["ck"]
            if ck.startswith("Pointer") or ck in ("PtrToPtr", "Transmute", "FnPtrToPtr", "Subtype"):
                if ck.startswith("PointerExpose"):
                    return ("cast", ck, r["ty"], v)
                return v
            ci = const_int(v)
            if ci is not None and ck == "IntToInt":
                return ("const", r["ty"], str(ci))
            return ("cast", ck, r["ty"], v)
        if k == "bin":
            a = self.eval_operand(st, fr, r["a"])
            b = self.eval_operand(st, fr, r["b"])
            op = r["op"]
            if op.endswith("WithOverflow"):
                base = op[: -len("WithOverflow")]
                return ("agg", "tuple", None, (self.binop(base, a, b, r["ty"]), ("ovf", base, a, b, r["ty"])), ("0", "1"))
            return self.binop(op, a, b, r["ty"])
        if k == "un":
            a = self.eval_operand(st, fr, r["a"])
            if r["op"] == "Not" and is_const(a) and a[2] in ("0", "1", "true", "false"):
                return ("const", "bool", "0" if a[2] in ("1", "true") else "1")
            if r["op"] == "PtrMetadata":
                return ("un", "PtrMetadata", a)
            return ("un", r["op"], a)
        if k == "discr":
            loc = self.eval_place(st, fr, r["p"])
            v = self.read(st, loc)
            if isinstance(v, tuple) and v[0] == "moved":
                v = v[1]
            table = tuple((x["n"], x["v"]) for x in r["variants"])
            if isinstance(v, tuple) and v[0] == "agg" and v[1] == "adt":
                vn = v[2][1]
                for n, dv in table:
                    if n == vn:
                        return ("const", "isize", dv)
            known = st.variants.get(v)
            if isinstance(known, str):
                for n, dv in table:
                    if n == known:
                        return ("const", "isize", dv)
            return ("discr", v, table)
        if k == "agg":
            vals = tuple(self.eval_operand(st, fr, o) for o in r["os"])
            ak = r["ak"]
            if ak == "tuple":
                return ("agg", "tuple", None, vals, tuple(str(i) for i in range(len(vals))))
            if ak == "adt":
                return ("agg", "adt", (r["adt"], r["variant"] if r.get("is_enum") else None), vals, tuple(r["fields"]))
            if ak == "closure":
                return ("agg", "closure", r["closure"], vals, tuple(str(i) for i in range(len(vals))))
            if ak == "array":
                return ("agg", "array", None, vals, tuple(str(i) for i in range(len(vals))))
            if ak == "rawptr":
                return vals[0] if vals else ("unknown", "rawptr")
            return ("unknown", "agg")
        if k == "repeat":
            return ("repeat", self.eval_operand(st, fr, r["o"]), r.get("n"))
        return ("unknown", k)

    def binop(self, op, a, b, ty):
        ia, ib = const_int(a), const_int(b)
        if ia is not None and ib is not None:
            try:
                res = {
                    "Eq": lambda: ia == ib, "Ne": lambda: ia != ib, "Lt": lambda: ia < ib, "Le": lambda: ia <= ib,
                    "Gt": lambda: ia > ib, "Ge": lambda: ia >= ib,
                }.get(op)
                if res:
                    return ("const", "bool", "1" if res() else "0")
                ar = {"Add": lambda: ia + ib, "Sub": lambda: ia - ib, "Mul": lambda: ia * ib,
                      "BitAnd": lambda: ia & ib, "BitOr": lambda: ia | ib, "Shl": lambda: ia << ib, "Shr": lambda: ia >> ib}.get(op)
                if ar:
                    return ("const", ty, str(ar()))
            except Exception:
                pass
        if op in ("Eq", "Ne") and a == b and not any(t[0] in ("unknown", "uninit") for t in subterms(a) if isinstance(t, tuple)):
            return ("const", "bool", "1" if op == "Eq" else "0")
        return ("bin", op, a, b)

    # ------------------------------------------------------------------ execution
    def event(self, st, fr, ev):
        ev["fn"] = fr.fpath
        ev["depth"] = fr.depth
        ev["fid"] = fr.fid
        st.events.append(ev)
        if ev.get("unwind") is not None and ev["ev"] in ("call", "drop", "drop_in_place") and not self._unwinding and self.guard_drops():
            self.explore_unwind(st, fr, ev)

    # ------------------------------------------------------------------ drop guards (crate types with a Drop impl that are not caches)
    CACHE_DROPS = ("lru::raw::RawLRU",)

    def guard_drops(self):
        """{type head: Drop::drop body} for the crate's Drop impls other than the caches' own"""
        if self._guards is None:
            g = {}
            for im in self.facts.doc["impls"]:
                if im.get("trait") == "core::ops::Drop" and im.get("self_head") not in self.CACHE_DROPS:
                    for it in im["items"]:
                        fn = self.facts.fns.get(it)
                        if fn and fn["name"] == "drop" and self.facts.body(it) is not None:
                            g[im["self_head"]] = self.facts.body(it)
            self._guards = g
        return self._guards

    def _guard_reach(self, body):
        """cleanup blocks of a body from which the drop of a guard-typed local is reachable"""
        key = body["path"]
        if key not in self._reach:
            G = self.guard_drops()
            blocks = body["blocks"]
            succ = {}
            hit = set()
            for i, blk in enumerate(blocks):
                if not blk["c"]:
                    continue
                t = blk["t"]
                if t["k"] == "drop":
                    succ[i] = [t["t"]]
                    if t.get("head") in G:
                        hit.add(i)
                elif t["k"] == "goto":
                    succ[i] = [t["t"]]
                elif t["k"] == "switch":
                    succ[i] = list(t["ts"]) + [t["otherwise"]]
                else:
                    succ[i] = []
            changed = True
            while changed:
                changed = False
                for i, ss in succ.items():
                    if i not in hit and any(x in hit for x in ss):
                        hit.add(i)
                        changed = True
            self._reach[key] = hit
        return self._reach[key]

    def explore_unwind(self, st, fr, ev):
        """user code at this event may panic: if a guard is dropped on the way out, run the cleanup chain on a copy of the state and
        keep the resulting event sequence (self.unwound) so that the typestate rules can judge what the guard does"""
        cur, bb = fr, ev.get("unwind")
        chain = []
        while cur is not None:
            if isinstance(bb, int):
                chain.append((cur, bb))
            cur, bb = cur.parent, cur.call_unwind
        if not any(b in self._guard_reach(f.body) for f, b in chain):
            return
        s2 = st.fork()
        self._unwinding = True
        try:
            self.event(s2, fr, {"ev": "unwind_begin", "site": len(st.events) - 1, "ln": ev.get("ln"), "q": ev.get("q")})
            states = [s2]
            for f, b in chain:
                nxt = []
                for sx in states:
                    nxt.extend(self._run_cleanup(sx, f, b))
                states = nxt
            for sx in states:
                self.unwound.append(Path(sx.events, ("unwound", ev.get("ln")), sx.facts, sx.variants, sx))
        finally:
            self._unwinding = False

    def _run_cleanup(self, st, fr, bb):
        """execute the cleanup blocks of one frame from bb to its `resume`; guard drops are inlined. Returns the resulting states."""
        G = self.guard_drops()
        out = []
        work = [(st, bb)]
        seen = 0
        while work:
            st, bb = work.pop()
            while True:
                seen += 1
                if seen > 400:
                    raise AnalysisError("cleanup chain too long in %s" % fr.fpath)
                blk = fr.body["blocks"][bb]
                for s_ in blk["s"]:
                    if s_["k"] == "assign":
                        val = self.eval_rvalue(st, fr, s_["r"], (fr.fpath, bb, s_["ln"]))
                        self.write(st, self.eval_place(st, fr, s_["p"]), val)
                t = blk["t"]
                k = t["k"]
                if k == "goto":
                    bb = t["t"]
                    continue
                if k == "switch":
                    outs = self.do_switch(st, fr, t, bb)
                    if not outs:
                        break
                    for (s3, tb) in outs[1:]:
                        work.append((s3, tb))
                    st, bb = outs[0]
                    continue
                if k == "drop":
                    loc = self.eval_place(st, fr, t["p"])
                    v = self.read(st, loc)
                    self.event(st, fr, {"ev": "drop", "loc": loc, "val": v, "ty": t["ty"], "head": t["head"], "ln": t["ln"], "bb": bb,
                                        "moved": bool(st.moved.get(loc)), "cleanup": True})
                    body = G.get(t.get("head"))
                    if body is not None and not st.moved.get(loc):
                        info = {"q": "<%s as core::ops::Drop>::drop" % t["head"], "ln": t["ln"], "bb": bb, "unwind": None}
                        res = list(self.inline_call(st, fr, body, [mkref(loc)], info))
                        for (s3, rv) in res[1:]:
                            work.append((s3, t["t"]))
                        if not res:
                            break
                        st = res[0][0]
                    bb = t["t"]
                    continue
                # resume / terminate / anything else: this frame is done
                out.append(st)
                break
        return out

    def exec_body(self, st, fr, bb):
        """generator of (state, return value) for every path from block bb of frame fr to its return"""
        work = [(st, bb)]
        while work:
            st, bb = work.pop()
            while True:
                self.steps += 1
                if self.steps > MAX_STEPS:
                    raise AnalysisError("step budget exceeded in %s" % self.root)
                key = (fr.fid, bb)
                c = st.visits.get(key, 0)
                bound = self.policy.loop_bound
                if bound > 2 and fr.depth > getattr(self.policy, "deep_depth", 1):
                    bound = 2      # the extra iteration of the thorough tier is spent on the loops of the analysed function and its direct
                    #                callees; loops nested deeper (sketch rows, bloom locations under a batch loop) keep the quick bound
                if c >= bound:
                    break  # cut the path at the loop bound (loop summarised by its first iterations)
                st.visits[key] = c + 1
                blk = fr.body["blocks"][bb]
                for s in blk["s"]:
                    if s["k"] == "assign":
                        site = (fr.fpath, bb, s["ln"])
                        val = self.eval_rvalue(st, fr, s["r"], site)
                        loc = self.eval_place(st, fr, s["p"])
                        if loc[0] != "L" or s["p"]["p"] and any(e == "deref" for e in s["p"]["p"]):
                            self.event(st, fr, {"ev": "store", "loc": loc, "val": val, "ln": s["ln"], "bb": bb})
                        self.write(st, loc, val)
                        st.moved.pop(loc, None)
                    elif s["k"] == "setdiscr":
                        pass
                t = blk["t"]
                k = t["k"]
                if k == "goto":
                    bb = t["t"]
                    continue
                if k == "ret":
                    rv = self.read(st, ("L", fr.fid, 0, ()))
                    yield (st, rv)
                    break
                if k in ("unreachable", "resume", "terminate"):
                    break
                if k == "switch":
                    outs = self.do_switch(st, fr, t, bb)
                    if not outs:
                        break
                    for (s2, tb) in outs[1:]:
                        work.append((s2, tb))
                    st, bb = outs[0]
                    continue
                if k == "drop":
                    loc = self.eval_place(st, fr, t["p"])
                    v = self.read(st, loc)
                    self.event(st, fr, {"ev": "drop", "loc": loc, "val": v, "ty": t["ty"], "head": t["head"], "ln": t["ln"], "bb": bb,
                                        "unwind": t["u"], "moved": bool(st.moved.get(loc))})
                    gbody = self.guard_drops().get(t.get("head")) if not blk["c"] else None
                    if gbody is not None and not st.moved.get(loc):
                        # a drop guard going out of scope on a normal path: its Drop::drop runs
                        info = {"q": "<%s as core::ops::Drop>::drop" % t["head"], "ln": t["ln"], "bb": bb, "unwind": t["u"]}
                        res = list(self.inline_call(st, fr, gbody, [mkref(loc)], info))
                        for (s3, rv) in res[1:]:
                            work.append((s3, t["t"]))
                        if not res:
                            break
                        st = res[0][0]
                    bb = t["t"]
                    continue
                if k == "assert":
                    c = self.eval_operand(st, fr, t["c"])
                    ops = [self.eval_operand(st, fr, o) for o in t["ops"]]
                    self.event(st, fr, {"ev": "assert", "msg": t["msg"], "cond": c, "expected": t["expected"], "ops": ops,
                                        "ln": t["ln"], "bb": bb, "exp": t.get("exp", False), "nfacts": len(st.facts)})
                    bb = t["t"]
                    continue
                if k == "call":
                    outs = list(self.do_call(st, fr, t, bb))
                    nxt = t["t"]
                    if nxt is None:
                        for (s2, rv) in outs:
                            self.aborted.append(Path(s2.events, ("diverged",), s2.facts, s2.variants, s2))
                        break  # diverging call (panic): path ends
                    first = None
                    for (s2, rv) in outs:
                        dloc = self.eval_place(s2, fr, t["d"])
                        self.write(s2, dloc, rv)
                        if first is None:
                            first = s2
                        else:
                            work.append((s2, nxt))
                    if first is None:
                        break
                    st, bb = first, nxt
                    continue
                # unknown terminator
                self.event(st, fr, {"ev": "unknown_term", "s": str(t)[:100], "bb": bb})
                break

    def do_switch(self, st, fr, t, bb):
        c = self.eval_operand(st, fr, t["o"])
        vals = t["vals"]
        ts = t["ts"]
        if isinstance(c, tuple) and c[0] == "un" and c[1] == "Not" and t.get("ty") == "bool" and len(vals) == 1 and str(vals[0]) == "0":
            # `if !x` is `if x` with the arms exchanged: facts are recorded about x itself
            t = dict(t, ts=[t["otherwise"]], otherwise=ts[0])
            ts = t["ts"]
            c = c[2]
            ci = const_int(c)
            if ci is not None:
                return [(st, ts[0] if ci == 0 else t["otherwise"])]
            return self._switch_on(st, fr, t, bb, c, vals, ts)
        return self._switch_on(st, fr, t, bb, c, vals, ts)

    def _switch_on(self, st, fr, t, bb, c, vals, ts):
        ci = const_int(c)
        if ci is not None:
            for v, tb in zip(vals, ts):
                if int(v) == ci:
                    return [(st, tb)]
            return [(st, t["otherwise"])]
        outs = []
        if isinstance(c, tuple) and c[0] == "discr":
            subj, table = c[1], c[2]
            excluded = st.variants.get(subj)
            excl = excluded[1] if isinstance(excluded, tuple) and excluded[0] == "not" else ()
            names = {dv: n for n, dv in table}
            listed = []
            for v, tb in zip(vals, ts):
                n = names.get(v)
                listed.append(n)
                if n in excl:
                    continue
                s2 = st.fork()
                s2.variants[subj] = n
                s2.facts.append(("variant", subj, n))
                self.event(s2, fr, {"ev": "branch", "cond": c, "variant": n, "ln": t.get("ln"), "bb": bb})
                outs.append((s2, tb))
            rest = [n for n, dv in table if n not in listed and n not in excl]
            ob = fr.body["blocks"][t["otherwise"]]
            if rest and not (ob["t"]["k"] == "unreachable" and not ob["s"]):
                for n in rest:
                    s2 = st.fork()
                    s2.variants[subj] = n
                    s2.facts.append(("variant", subj, n))
                    self.event(s2, fr, {"ev": "branch", "cond": c, "variant": n, "ln": t.get("ln"), "bb": bb})
                    outs.append((s2, t["otherwise"]))
            return outs
        if t.get("ty") in INT_TYS:
            # `match n { 0 => .., 1 => .., _ => .. }` on an integer: the same facts as the chain of `n == k` tests it abbreviates
            inf = {"ln": t.get("ln"), "bb": bb, "q": "<match>"}
            for v, tb in zip(vals, ts):
                s2 = self.models.assume(self, st, fr, ("bin", "Eq", c, ("const", t["ty"], str(v))), True, inf)
                if s2 is not None:
                    outs.append((s2, tb))
            s2 = st
            for v in vals:
                s2 = self.models.assume(self, s2, fr, ("bin", "Eq", c, ("const", t["ty"], str(v))), False, inf)
                if s2 is None:
                    break
            if s2 is not None:
                outs.append((s2, t["otherwise"]))
            return outs
        # boolean / integer condition on an opaque value
        known = None
        for f in st.facts:
            if f[0] == "cond" and f[1] == c:
                known = f[2]
        if known is None and isinstance(c, tuple) and c[0] == "bin" and c[1] in CMP_FLIP and len(vals) == 1 and str(vals[0]) == "0":
            # the same comparison written with its operands swapped (a < b  <=>  b > a; exact for floats too, unlike negation)
            cf = ("bin", CMP_FLIP[c[1]], c[3], c[2])
            for f in st.facts:
                if f[0] == "cond" and f[1] == cf:
                    tr = self.models._truth(f[2])
                    if tr is not None:
                        known = ("not", ("0",)) if tr else "0"
            if known is not None:
                known = 1 if known != "0" else 0
        if known is None:
            known = self.models.decide_cond(self, st, c)
        targets = list(zip(vals, ts)) + [(None, t["otherwise"])]
        decided_by_model = known is not None and not any(f[0] == "cond" and f[1] == c for f in st.facts)
        for v, tb in targets:
            if known is not None:
                if v is not None and str(known) != str(v):
                    continue
                if v is None and str(known) in [str(x) for x in vals]:
                    continue
            s2 = st.fork() if (known is None) else st
            outcome = v if v is not None else ("not", tuple(vals))
            if known is None:
                s2.facts.append(("cond", c, outcome))
                self.event(s2, fr, {"ev": "branch", "cond": c, "outcome": outcome, "ty": t.get("ty"), "ln": t.get("ln"), "bb": bb})
                tr = self.models._truth(outcome)
                if tr is not None:
                    self.models.note_sum_fact(self, s2, c, tr)
                    self.models.note_room_fact(self, s2, c, tr)
                    if self.models.note_empty_fact(self, s2, c, tr):
                        continue   # infeasible: every resident list empty although their sum is >= size >= 1
            elif decided_by_model:
                self.event(s2, fr, {"ev": "branch", "cond": c, "outcome": outcome, "ty": t.get("ty"), "ln": t.get("ln"), "bb": bb, "decided": True})
            outs.append((s2, tb))
        return outs

    # ------------------------------------------------------------------ calls
    def callee_q(self, f):
        if "indirect" in f:
            return None
        r = f.get("resolved")
        if r and not r.get("shim"):
            return r["q"]
        return f["q"]

    def do_call(self, st, fr, t, bb):
        f = t["f"]
        args = [self.eval_operand(st, fr, a) for a in t["args"]]
        if "indirect" in f:
            cid = st.fresh()
            self.event(st, fr, {"ev": "call", "q": "<indirect>", "args": args, "id": cid, "ln": t["ln"], "bb": bb, "unwind": t["u"], "f": f})
            yield (st, ("call", cid, "<indirect>"))
            return
        q = self.callee_q(f)
        r = f.get("resolved")
        cdef = r["def"] if (r and not r.get("shim")) else f["def"]
        info = {"q": q, "def": cdef, "f": f, "args": args, "ln": t["ln"], "bb": bb, "unwind": t["u"], "dty": t["dty"],
                "arg_tys": t["arg_tys"], "resolved": bool(r), "exp": t.get("exp", False)}
        # 1. python models of std / primitives
        m = self.models.lookup(q, info)
        if m is not None:
            res = m(self, st, fr, info)
            if res is not None:
                for out in res:
                    yield out
                return
        # 2. inline same-crate callee
        body = self.facts.body(cdef)
        if body is not None and self.policy.inline(self, fr, info):
            for out in self.inline_call(st, fr, body, args, info):
                yield out
            return
        # 3. opaque call
        cid = st.fresh()
        ev = {"ev": "call", "q": q, "args": args, "id": cid, "ln": t["ln"], "bb": bb, "unwind": t["u"], "f": f,
              "local": body is not None, "def": cdef, "dty": t["dty"], "exp": t.get("exp", False)}
        clos = [t_[2] for a in args if isinstance(a, tuple) for t_ in subterms(a) if t_[0] == "agg" and t_[1] == "closure"]
        if clos:
            # a closure of this crate handed to a function the interpreter has no model for: its body is not on any path
            ev["blind_closure"] = clos
            self.blind.append((q, fr.fpath, tuple(clos), t["ln"]))
        self.event(st, fr, ev)
        self.models.opaque_effects(self, st, fr, info, ev)
        yield (st, ("call", cid, q))

    def inline_call(self, st, fr, body, args, info, quiet=False):
        fid = st.fresh()
        nf = Frame(fid, body, fr, info.get("unwind"), fr.depth + 1)
        if nf.depth > self.policy.max_depth:
            raise AnalysisError("inline depth exceeded at %s -> %s" % (fr.fpath, body["path"]))
        for i, a in enumerate(args):
            st.store[("L", fid, i + 1, ())] = a
        self.event(st, fr, {"ev": "enter", "q": info["q"], "def": body["path"], "args": args, "ln": info["ln"], "bb": info["bb"],
                            "callee_fid": fid, "unwind": info.get("unwind")})
        for (s2, rv) in self.exec_body(st, nf, 0):
            self.event(s2, fr, {"ev": "exit", "q": info["q"], "def": body["path"], "ret": rv, "callee_fid": fid, "ln": info["ln"]})
            yield (s2, rv)

    def call_closure(self, st, fr, clos, cargs, info):
        """run closure value `clos` (('agg','closure',def,upvars)) on argument values cargs"""
        if not (isinstance(clos, tuple) and clos[0] == "agg" and clos[1] == "closure"):
            if isinstance(clos, tuple) and clos[0] == "fn":
                # plain fn item used as a callback
                body = self.facts.body(clos[2])
                if body is not None:
                    inf = dict(info, q=clos[1])
                    for out in self.inline_call(st, fr, body, list(cargs), inf):
                        yield out
                    return
            cid = st.fresh()
            self.event(st, fr, {"ev": "call", "q": "<callback>", "args": [clos] + list(cargs), "id": cid, "ln": info["ln"], "bb": info["bb"],
                                "unwind": info.get("unwind"), "user": True})
            yield (st, ("call", cid, "<callback>"))
            return
        body = self.facts.body(clos[2])
        if body is None:
            raise AnalysisError("closure body missing: %s" % clos[2])
        # closure bodies take (self-or-ref, args...) with args untupled
        self_ty = body["locals"][1]["ty"]
        if self_ty.startswith("&"):
            tl = ("T", st.fresh(), ())
            st.store[tl] = clos
            a0 = ("ref", tl)
        else:
            a0 = clos
        inf = dict(info, q=clos[2].split("::")[-2] + "::" + clos[2].split("::")[-1] if "::" in clos[2] else clos[2])
        for out in self.inline_call(st, fr, body, [a0] + list(cargs), inf):
            yield out


class DefaultPolicy:
    loop_bound = 2
    max_depth = 12

    def inline(self, interp, fr, info):
        return True


# =========================================================================================
# Models of std / core primitives (a fixed table; anything else is an opaque call event)
# =========================================================================================
def _last(q, n=2):
    return "::".join(q.split("::")[-n:])


OPTION_SOME = ("core::option::Option", "Some")
OPTION_NONE = ("core::option::Option", "None")


def some(v):
    return ("agg", "adt", OPTION_SOME, (v,), ("0",))


NONE = ("agg", "adt", OPTION_NONE, (), ())


def variant_of(st, v):
    """'Some'/'None'/'Ok'/'Err'/None(unknown) for an Option/Result value"""
    if isinstance(v, tuple) and v[0] == "agg" and v[1] == "adt":
        return v[2][1]
    k = st.variants.get(v)
    return k if isinstance(k, str) else None


def payload(interp, st, v, variant, idx="0"):
    if isinstance(v, tuple) and v[0] == "agg":
        return v[3][0] if v[3] else ("unit",)
    return ("proj", v, (("dc", variant), idx))


CMP_FLIP = {"Lt": "Gt", "Gt": "Lt", "Le": "Ge", "Ge": "Le", "Eq": "Eq", "Ne": "Ne"}
INT_TYS = ("usize", "u8", "u16", "u32", "u64", "u128", "isize", "i8", "i16", "i32", "i64", "i128")


class Models:
    """std/core models.  Each model: f(interp, st, fr, info) -> iterable of (state, retval) or None."""

    HASHMAP_HEADS = ("std::collections::HashMap", "hashbrown::HashMap", "hashbrown::map::HashMap", "std::collections::hash::map::HashMap")

    def __init__(self):
        self.table = {}
        t = self.table
        for name in ("map", "and_then", "or_else", "unwrap_or", "unwrap_or_else", "is_some", "is_none", "unwrap", "expect", "inspect",
                     "ok_or", "ok_or_else", "map_or", "map_or_else", "copied", "cloned", "as_ref", "as_mut", "take", "unwrap_or_default", "filter",
                     "is_some_and", "is_none_or"):
            t["core::option::Option::" + name] = getattr(self, "opt_" + name, None)
        for name in ("map", "map_err", "unwrap", "expect", "is_ok", "is_err", "ok", "and_then", "unwrap_or", "or_else", "unwrap_or_else", "map_or", "map_or_else"):
            t["core::result::Result::" + name] = getattr(self, "res_" + name, None)
        t["<core::option::Option as core::ops::Try>::branch"] = self.try_branch_opt
        t["<core::result::Result as core::ops::Try>::branch"] = self.try_branch_res
        t["<core::option::Option as core::ops::FromResidual>::from_residual"] = self.from_residual_opt
        t["<core::result::Result as core::ops::FromResidual>::from_residual"] = self.from_residual_res
        t["<core::option::Option as core::ops::FromResidual<core::option::Option<core::convert::Infallible>>>::from_residual"] = self.from_residual_opt
        # pointer-preserving conversions
        for q in ("core::ptr::NonNull::as_ptr", "core::ptr::NonNull::new_unchecked", "core::ptr::NonNull::cast",
                  "core::ptr::mut_ptr::<impl *mut T>::cast", "core::ptr::const_ptr::<impl *const T>::cast",
                  "core::ptr::mut_ptr::<impl *mut T>::cast_const", "core::ptr::const_ptr::<impl *const T>::cast_mut",
                  "<T as core::convert::Into<U>>::into", "<T as core::convert::From<T>>::from",
                  "<I as core::iter::IntoIterator>::into_iter", "core::mem::MaybeUninit::new", "core::mem::MaybeUninit::assume_init_ref",
                  "core::mem::MaybeUninit::assume_init_mut", "core::mem::MaybeUninit::as_ptr", "core::mem::MaybeUninit::as_mut_ptr",
                  "<&T as core::borrow::Borrow<T>>::borrow", "<T as core::borrow::Borrow<T>>::borrow",
                  "<T as core::borrow::BorrowMut<T>>::borrow_mut", "<&mut T as core::borrow::Borrow<T>>::borrow",
                  "core::mem::transmute", "core::intrinsics::transmute"):
            t[q] = self.identity
        t["core::ptr::NonNull::as_ref"] = self.nn_as_ref
        t["core::ptr::NonNull::as_mut"] = self.nn_as_ref
        t["core::ptr::NonNull::from"] = self.identity
        t["<core::ptr::NonNull as core::convert::From<&mut T>>::from"] = self.identity
        t["core::mem::MaybeUninit::assume_init"] = self.mu_assume_init
        t["core::mem::MaybeUninit::assume_init_read"] = self.mu_assume_init_read
        t["core::mem::MaybeUninit::assume_init_drop"] = self.drop_in_place
        t["core::mem::MaybeUninit::uninit"] = self.mu_uninit
        t["core::mem::swap"] = self.mem_swap
        t["core::ptr::swap"] = self.mem_swap
        t["core::mem::replace"] = self.mem_replace
        t["core::ptr::replace"] = self.mem_replace
        t["core::mem::take"] = self.mem_take
        t["core::ptr::read"] = self.ptr_read
        t["core::ptr::write"] = self.ptr_write
        t["core::ptr::drop_in_place"] = self.drop_in_place
        t["core::mem::drop"] = self.mem_drop
        t["core::mem::forget"] = None
        t["alloc::boxed::Box::new"] = self.box_new
        t["alloc::boxed::Box::into_raw"] = self.box_into_raw
        t["alloc::boxed::Box::from_raw"] = self.box_from_raw
        t["alloc::boxed::Box::leak"] = self.box_into_raw
        t["core::ptr::NonNull::new"] = self.nn_new
        t["core::ptr::null_mut"] = self.null
        t["core::ptr::null"] = self.null
        t["core::cmp::Ord::max"] = None
        t["core::array::from_fn"] = self.array_from_fn
        t["core::ops::RangeInclusive::new"] = self.range_incl_new
        t["core::ops::RangeInclusive::contains"] = self.range_contains
        t["core::ops::Range::contains"] = self.range_contains
        t["core::bool::<impl bool>::then"] = self.bool_then
        t["bool::then"] = self.bool_then
        t["core::bool::<impl bool>::then_some"] = self.bool_then_some
        t["bool::then_some"] = self.bool_then_some
        for q in ("<I as core::iter::Iterator>::for_each", "core::iter::Iterator::for_each"):
            t[q] = self.iter_for_each
        t["core::iter::Iterator::map"] = self.iter_map
        t["<core::cmp::Ordering as core::cmp::PartialEq>::eq"] = self.ordering_eq
        t["<core::cmp::Ordering as core::cmp::PartialEq>::ne"] = self.ordering_eq

    def lookup(self, q, info):
        if q is None:
            return None
        m = self.table.get(q)
        if m is not None:
            return m
        # HashMap methods (std and hashbrown)
        f = info["f"]
        st = f.get("self_ty", "")
        if st.startswith(self.HASHMAP_HEADS) or "HashMap<" in st and ("hashbrown" in st or "std::collections" in st):
            name = q.split("::")[-1]
            return getattr(self, "hm_" + name, None)
        name = q.split("::")[-1]
        if q.endswith("Iterator>::for_each") or q.endswith("Iterator::for_each"):
            return self.iter_for_each
        if q.endswith(("Iterator>::all", "Iterator::all", "Iterator>::any", "Iterator::any")) and len(info["args"]) == 2:
            return self.iter_all_any
        if q.endswith(("Iterator>::fold", "Iterator::fold")) and len(info["args"]) == 3:
            return self.iter_fold
        if q.startswith("core::ptr::mut_ptr::<impl *mut T>::") or q.startswith("core::ptr::const_ptr::<impl *const T>::"):
            if name in ("cast", "cast_const", "cast_mut", "as_ptr"):
                return self.identity
            if name in ("read",):
                return self.ptr_read
            if name in ("write",):
                return self.ptr_write
            if name in ("drop_in_place",):
                return self.drop_in_place
            if name in ("as_ref", "as_mut"):
                return None
        if q == "core::cmp::Ord::max" or q.endswith("as core::cmp::Ord>::max"):
            return None
        if name in ("eq", "ne") and "PartialEq" in q and len(info["args"]) == 2 and all("core::cmp::Ordering" in (t or "") for t in info["arg_tys"]):
            return self.ordering_eq
        if q.endswith(" as core::cmp::Ord>::cmp") and q[1:].split(" ")[0] in INT_TYS and len(info["args"]) == 2:
            return self.int_cmp
        if q.endswith(" as core::convert::From>::from") and len(info["args"]) == 1 and info["arg_tys"][0] == "bool" and info["dty"] in INT_TYS:
            return self.int_from_bool
        if q.endswith(("Iterator>::next", "Iterator::next")) and len(info["args"]) == 1:
            return self.iter_next_lazy
        # integer min / saturating_sub are case splits (the same two paths as the if-form they abbreviate)
        if info["dty"] in INT_TYS and len(info["args"]) == 2:
            if q in ("core::cmp::min", "core::cmp::Ord::min") or q.endswith("as core::cmp::Ord>::min"):
                return self.num_min
            if (q.startswith("core::num::<impl ") or q.split("::")[0] in INT_TYS) and name == "saturating_sub":
                return self.num_saturating_sub
        return None

    def assume(self, interp, st, fr, c, truth, info):
        """a fork of st on which the comparison c has the given truth value (facts and branch event as for a switch), or None if
        the facts already on the path decide it the other way"""
        known = None
        for f in st.facts:
            if f[0] == "cond" and f[1] == c:
                known = self._truth(f[2])
        if known is None:
            d = self.decide_cond(interp, st, c)
            if d is not None:
                known = str(d) not in ("0", "false")
        if known is not None:
            return st.fork() if known == truth else None
        s2 = st.fork()
        outcome = "1" if truth else "0"
        s2.facts.append(("cond", c, outcome))
        interp.event(s2, fr, {"ev": "branch", "cond": c, "outcome": outcome, "ty": "bool", "ln": info["ln"], "bb": info["bb"], "via": info["q"]})
        self.note_sum_fact(interp, s2, c, truth)
        self.note_room_fact(interp, s2, c, truth)
        if self.note_empty_fact(interp, s2, c, truth):
            return None
        return s2

    def num_min(self, interp, st, fr, info):
        a, b = info["args"]
        c = ("bin", "Le", a, b)
        outs = []
        for truth, val in ((True, a), (False, b)):
            s2 = self.assume(interp, st, fr, c, truth, info)
            if s2 is not None:
                outs.append((s2, val))
        return outs

    ORDERING = {"Less": -1, "Equal": 0, "Greater": 1}

    def _ordering(self, name):
        return ("agg", "adt", ("core::cmp::Ordering", name), (), ())

    def _ordering_of(self, v):
        if isinstance(v, tuple) and v[0] == "agg" and v[1] == "adt" and v[2][0] == "core::cmp::Ordering" and v[2][1] in self.ORDERING:
            return v[2][1]
        ci = const_int(v) if isinstance(v, tuple) and v[0] == "const" and "Ordering" in str(v[1]) else None
        if ci is not None:
            ci = ci - 256 if ci > 127 else ci
            for k, d in self.ORDERING.items():
                if d == ci:
                    return k
        return None

    def int_cmp(self, interp, st, fr, info):
        """Ord::cmp on integers is the three-way case split it abbreviates"""
        a, b = (interp.read(st, deref_loc(x)) for x in info["args"])
        outs = []
        s_lt = self.assume(interp, st.fork(), fr, ("bin", "Lt", a, b), True, info)
        if s_lt is not None:
            outs.append((s_lt, self._ordering("Less")))
        s_ge = self.assume(interp, st, fr, ("bin", "Lt", a, b), False, info)
        if s_ge is not None:
            s_eq = self.assume(interp, s_ge.fork(), fr, ("bin", "Eq", a, b), True, info)
            if s_eq is not None:
                outs.append((s_eq, self._ordering("Equal")))
            s_gt = self.assume(interp, s_ge, fr, ("bin", "Eq", a, b), False, info)
            if s_gt is not None:
                s_gt = self.assume(interp, s_gt, fr, ("bin", "Gt", a, b), True, info)
            if s_gt is not None:
                outs.append((s_gt, self._ordering("Greater")))
        return outs

    def ordering_eq(self, interp, st, fr, info):
        a, b = (self._ordering_of(interp.read(st, deref_loc(x))) for x in info["args"])
        if a is None or b is None:
            return None
        ne = info["q"].endswith("::ne")
        return [(st, ("const", "bool", "1" if (a == b) != ne else "0"))]

    def int_from_bool(self, interp, st, fr, info):
        v = info["args"][0]
        ci = const_int(v)
        if ci is not None:
            return [(st, ("const", info["dty"], str(ci)))]
        return [(st, ("cast", "IntToInt", info["dty"], v))]

    def num_saturating_sub(self, interp, st, fr, info):
        a, b = info["args"]
        c = ("bin", "Lt", a, b)
        outs = []
        for truth, val in ((True, ("const", info["dty"], "0")), (False, ("bin", "Sub", a, b))):
            s2 = self.assume(interp, st, fr, c, truth, info)
            if s2 is not None:
                outs.append((s2, val))
        return outs

    # names of the RawLRU fields of composite caches whose capacity equals the cache's resident bound `size`
    # (filled in by rules/lib/composite.py from the constructors; empty = no room reasoning)
    resident_bound_fields = {}        # cache ADT -> names of its RawLRU fields whose capacity is the cache's `size` in every constructor

    def rb(self, interp):
        return self.resident_bound_fields.get(getattr(interp, "root_adt", None), frozenset())
    # P1 relies on K's Eq/Hash being consistent (a stored key is found again). Memory safety must not: C03.R7 re-runs with this off.
    assume_consistent_eq = True
    identify_own_key = True
    # scalar fields of a composite that hold the same value as the cap of one of its lists, e.g. protected_size -> protected
    # (filled in by rules/lib/composite.py from the constructors)
    cap_alias = {}

    def _len_vs_cap(self, a, b, op):
        """(Xmap, op-with-len-on-the-left, len-version) if the comparison relates len(X) to cap(X) (directly or through an alias field)"""
        flip = {"Lt": "Gt", "Gt": "Lt", "Le": "Ge", "Ge": "Le"}
        for x, y, o in ((a, b, op), (b, a, flip.get(op, op))):
            if isinstance(x, tuple) and x[0] == "len" and isinstance(y, tuple) and y[0] == "load" and x[1][0] == "H" and y[1][0] == "H":
                Xm, cl = x[1], y[1]
                if not (Xm[2] and Xm[2][-1] == "map" and cl[2] and Xm[1] == cl[1]):
                    continue
                if cl[2][-1] == "cap" and cl[2][:-1] == Xm[2][:-1]:
                    return Xm, o, x[2]
                al = self.cap_alias.get(cl[2][-1])
                if al is not None and cl[2][:-1] + (al,) == Xm[2][:-1]:
                    return Xm, o, x[2]
        return None

    def note_room_fact(self, interp, st, c, truth):
        if not (isinstance(c, tuple) and c[0] == "bin" and c[1] in ("Lt", "Le", "Gt", "Ge", "Eq", "Ne")):
            return
        r = self._len_vs_cap(c[2], c[3], c[1])
        if r is None:
            return
        Xm, o, ver = r
        if ver != st.lenver.get(Xm, 0):
            return
        neg = {"Eq": "Ne", "Ne": "Eq", "Lt": "Ge", "Ge": "Lt", "Gt": "Le", "Le": "Gt"}
        if not truth:
            o = neg[o]
        if o in ("Lt", "Ne"):      # len < cap, or len != cap with len <= cap (I_list)
            st.roomx[Xm] = True

    def decide_cond(self, interp, st, c):
        """decide an opaque boolean condition from facts already on the path (sound pruning only)"""
        if not (isinstance(c, tuple) and c[0] == "bin"):
            return None
        op, a, b = c[1], c[2], c[3]
        if op in ("Eq", "Ne"):
            for x, y in ((a, b), (b, a)):
                ky = const_int(y)
                if ky is None:
                    continue
                for f in st.facts:
                    if f[0] != "cond" or not (isinstance(f[1], tuple) and f[1][0] == "bin" and f[1][1] in ("Eq", "Ne")):
                        continue
                    fa, fb = f[1][2], f[1][3]
                    other = fb if fa == x else fa if fb == x else None
                    if other is None or const_int(other) is None:
                        continue
                    truth = self._truth(f[2])
                    if truth is None:
                        continue
                    is_eq = (f[1][1] == "Eq") == truth      # fact says x == other (True) or x != other (False)
                    if is_eq and const_int(other) != ky:
                        return 0 if op == "Eq" else 1
                    if is_eq and const_int(other) == ky:
                        return 1 if op == "Eq" else 0
                    if not is_eq and const_int(other) == ky:
                        return 0 if op == "Eq" else 1
        # max(x, c) with a constant c >= 1 is not zero
        if op in ("Eq", "Ne"):
            for x, y in ((a, b), (b, a)):
                if const_int(y) == 0 and isinstance(x, tuple) and x[0] == "call" and (x[2] or "").split("::")[-1] == "max":
                    for e in reversed(st.events):
                        if e.get("ev") == "call" and e.get("id") == x[1]:
                            if any((const_int(arg) or 0) >= 1 for arg in e["args"]):
                                return 0 if op == "Eq" else 1
                            break
        # cap != 0 for an inner list of a composite cache (constructors validate, nothing resizes them: C03.R2b)
        if op in ("Eq", "Ne"):
            for x, y in ((a, b), (b, a)):
                if const_int(y) == 0 and isinstance(x, tuple) and x[0] == "load" and x[1][0] == "H" and len(x[1][2]) >= 2 and x[1][2][-1] == "cap":
                    return 0 if op == "Eq" else 1
        # cap(X) == k with k below what the path already knows about len(X) (len(X) <= cap(X) is the list invariant)
        if op in ("Eq", "Ne"):
            for x, y in ((a, b), (b, a)):
                ky = const_int(y)
                if ky is not None and isinstance(x, tuple) and x[0] == "load" and x[1][0] == "H" and x[1][2][-1:] == ("cap",):
                    Xm = ("H", x[1][1], x[1][2][:-1] + ("map",))
                    if self.len_lower_bound(st, Xm) > ky:
                        return 0 if op == "Eq" else 1
        # room: len(X) vs cap(X) for a resident-bound list with slack >= 1
        for x, y, o in ((a, b, op), (b, a, {"Lt": "Gt", "Gt": "Lt", "Le": "Ge", "Ge": "Le"}.get(op, op))):
            if isinstance(x, tuple) and x[0] == "len" and isinstance(y, tuple) and y[0] == "load":
                Xm = x[1]
                capl = y[1]
                if Xm[0] == "H" and capl[0] == "H" and Xm[2] and Xm[2][-1] == "map" and capl[2] and capl[2][-1] == "cap" \
                        and Xm[1] == capl[1] and Xm[2][:-1] == capl[2][:-1] and len(Xm[2]) >= 2:
                    fld = Xm[2][-2]
                    root = (Xm[1], Xm[2][:-2])
                    if fld in self.rb(interp) and st.slack.get(root, 0) >= 1 and x[2] == st.lenver.get(Xm, 0):
                        return {"Ge": 0, "Eq": 0, "Gt": 0, "Lt": 1, "Ne": 1, "Le": 1}.get(o)
        # an entry was removed from this very list / len < cap was established, and nothing was inserted since (len <= cap is I_list)
        r = self._len_vs_cap(a, b, op) if op in ("Lt", "Le", "Gt", "Ge", "Eq", "Ne") else None
        if r is not None:
            Xm, o, ver = r
            if st.roomx.get(Xm) and ver == st.lenver.get(Xm, 0):
                return {"Ge": 0, "Eq": 0, "Gt": 0, "Lt": 1, "Ne": 1, "Le": 1}.get(o)
        return None

    def len_lower_bound(self, st, Xm):
        """a lower bound of len(X) (current version) from the comparison facts of the path: values excluded by failed `len - j == c`
        tests (the countdown of an iterator over X), and `len > c` / `len >= c` facts"""
        ver = st.lenver.get(Xm, 0)
        excluded = set()
        lb = 0
        for f in st.facts:
            if f[0] != "cond" or not (isinstance(f[1], tuple) and f[1][0] == "bin" and f[1][1] in CMP_FLIP):
                continue
            tr = self._truth(f[2])
            if tr is None:
                continue
            for o, x, y in ((f[1][1], f[1][2], f[1][3]), (CMP_FLIP[f[1][1]], f[1][3], f[1][2])):
                k = const_int(y)
                if k is None:
                    continue
                j = 0
                while isinstance(x, tuple) and x[0] == "bin" and x[1] == "Sub" and const_int(x[3]) is not None:
                    j += const_int(x[3])
                    x = x[2]
                if not (isinstance(x, tuple) and x[0] == "len" and x[1] == Xm and x[2] == ver):
                    continue
                oo = o if tr else {"Eq": "Ne", "Ne": "Eq", "Lt": "Ge", "Ge": "Lt", "Gt": "Le", "Le": "Gt"}[o]
                if oo == "Ne":
                    excluded.add(k + j)      # (len - j) != k; the subtraction did not wrap because the earlier tests excluded smaller values
                elif oo == "Gt" and j == 0:
                    lb = max(lb, k + 1)
                elif oo == "Ge" and j == 0:
                    lb = max(lb, k)
                elif oo == "Eq" and j == 0:
                    lb = max(lb, k)
        while lb in excluded:
            lb += 1
        return lb

    @staticmethod
    def _truth(outcome):
        if isinstance(outcome, tuple) and outcome and outcome[0] == "not":
            vals = [str(x) for x in outcome[1]]
            return True if "0" in vals else None
        if outcome is None:
            return None
        return str(outcome) not in ("0", "false")

    def note_sum_fact(self, interp, st, c, truth):
        """`len(A)+len(B) < size` (all resident lists, current versions) gives slack 1"""
        if not (isinstance(c, tuple) and c[0] == "bin" and c[1] in ("Lt", "Ge", "Gt", "Le")):
            return
        if c[1] in ("Gt", "Le"):
            # `size > sum` / `size <= sum`: the same test written with the operands swapped
            c = ("bin", {"Gt": "Lt", "Le": "Ge"}[c[1]], c[3], c[2]) + tuple(c[4:])
        is_lt = (c[1] == "Lt") == truth
        s, bound = c[2], c[3]
        if not (isinstance(s, tuple) and s[0] == "bin" and s[1] == "Add"):
            return
        lens = [s[2], s[3]]
        roots = set()
        for l in lens:
            if not (isinstance(l, tuple) and l[0] == "len" and l[1][0] == "H" and len(l[1][2]) >= 2 and l[1][2][-1] == "map"):
                return
            if l[1][2][-2] not in self.rb(interp) or l[2] != st.lenver.get(l[1], 0):
                return
            roots.add((l[1][1], l[1][2][:-2]))
        if len(roots) != 1 or lens[0][1] == lens[1][1]:
            return
        root = roots.pop()
        if not (isinstance(bound, tuple) and bound[0] == "load" and bound[1][0] == "H" and bound[1][1] == root[0]
                and bound[1][2] == root[1] + ("size",)):
            return
        if is_lt:
            st.slack[root] = max(st.slack.get(root, 0), 1)
        else:
            # sum >= size (and size >= 1 by construction): at least one of the summed lists is non-empty
            st.sumge[root] = tuple((l[1], l[2]) for l in lens)

    def _cap_ge1(self, st, Xm):
        """cap >= 1: an inner list of a composite (validated at construction, never resized: C03.R2b) or an explicit cap != 0 fact"""
        if len(Xm[2]) >= 2:
            return True
        capt = ("load", ("H", Xm[1], Xm[2][:-1] + ("cap",)), 0)
        for f in st.facts:
            if f[0] == "cond" and isinstance(f[1], tuple) and f[1][0] == "bin" and f[1][1] in ("Eq", "Ne") and capt[:2] in (f[1][2][:2] if isinstance(f[1][2], tuple) else None, f[1][3][:2] if isinstance(f[1][3], tuple) else None):
                other = f[1][3] if (isinstance(f[1][2], tuple) and f[1][2][:2] == capt[:2]) else f[1][2]
                if const_int(other) == 0:
                    t = self._truth(f[2])
                    if t is not None and ((f[1][1] == "Eq") != t):
                        return True
        return False

    def note_empty_fact(self, interp, st, c, truth):
        """records emptiness facts of lists; returns True if the path became infeasible
        (all resident lists of a cache are empty while their length sum was established >= size >= 1)"""
        if not (isinstance(c, tuple) and c[0] == "bin"):
            return False
        op, a, b = c[1], c[2], c[3]
        Xmap = None
        # (*X.tail).prev != X.head  is false  /  == is true
        for x, y in ((a, b), (b, a)):
            if isinstance(x, tuple) and x[0] == "load" and x[1][0] == "H" and x[1][2] in (("prev",), ("next",)) and isinstance(y, tuple) and y[0] == "load":
                s_, h_ = x[1][1], y
                if isinstance(s_, tuple) and s_[0] == "load" and s_[1][0] == "H" and s_[1][2][-1:] in (("tail",), ("head",)) \
                        and h_[1][0] == "H" and h_[1][2][-1:] in (("head",), ("tail",)) and s_[1][1] == h_[1][1] and s_[1][2][:-1] == h_[1][2][:-1]:
                    if (op == "Ne" and not truth) or (op == "Eq" and truth):
                        Xmap = ("H", s_[1][1], s_[1][2][:-1] + ("map",))
            # len(X) == 0 true / len(X) > 0 false / len != 0 false
            if isinstance(x, tuple) and x[0] == "len" and const_int(y) == 0 and x[2] == st.lenver.get(x[1], 0):
                xo = op if x is a else {"Lt": "Gt", "Gt": "Lt", "Le": "Ge", "Ge": "Le"}.get(op, op)
                if (xo == "Eq" and truth) or (xo in ("Gt", "Ne") and not truth) or (xo == "Le" and truth):
                    Xmap = x[1]
        # non-emptiness through the length: len(X) > c / len(X) != 0 / len(X) >= 1
        for x, y, o in ((a, b, op), (b, a, {"Lt": "Gt", "Gt": "Lt", "Le": "Ge", "Ge": "Le"}.get(op, op))):
            if isinstance(x, tuple) and x[0] == "len" and x[2] == st.lenver.get(x[1], 0):
                oo = o if truth else {"Eq": "Ne", "Ne": "Eq", "Lt": "Ge", "Ge": "Lt", "Gt": "Le", "Le": "Gt"}[o]
                cy = const_int(y)
                if oo == "Gt" or (oo == "Ne" and cy == 0) or (oo == "Ge" and cy is not None and cy >= 1) or (oo == "Eq" and cy is not None and cy >= 1):
                    if st.empty.get(x[1]) == x[2]:
                        return True
                    st.nonempty[x[1]] = x[2]
        # (*X.tail).prev != X.head is true: the list is non-empty
        for x, y in ((a, b), (b, a)):
            if isinstance(x, tuple) and x[0] == "load" and x[1][0] == "H" and x[1][2] in (("prev",), ("next",)) and isinstance(y, tuple) and y[0] == "load":
                s_, h_ = x[1][1], y
                if isinstance(s_, tuple) and s_[0] == "load" and s_[1][0] == "H" and s_[1][2][-1:] in (("tail",), ("head",)) \
                        and h_[1][0] == "H" and h_[1][2][-1:] in (("head",), ("tail",)) and s_[1][1] == h_[1][1] and s_[1][2][:-1] == h_[1][2][:-1]:
                    if (op == "Ne" and truth) or (op == "Eq" and not truth):
                        xm = ("H", s_[1][1], s_[1][2][:-1] + ("map",))
                        st.nonempty[xm] = st.lenver.get(xm, 0)
        # len(X) >= cap(X) with cap(X) >= 1
        r = self._len_vs_cap(a, b, op) if op in ("Lt", "Le", "Gt", "Ge", "Eq", "Ne") else None
        if r is not None:
            xm, o, ver = r
            oo = o if truth else {"Eq": "Ne", "Ne": "Eq", "Lt": "Ge", "Ge": "Lt", "Gt": "Le", "Le": "Gt"}[o]
            if oo in ("Ge", "Eq", "Gt") and ver == st.lenver.get(xm, 0) and self._cap_ge1(st, xm):
                if st.empty.get(xm) == ver:
                    return True
                st.nonempty[xm] = ver
        if Xmap is None:
            return False
        if st.nonempty.get(Xmap) == st.lenver.get(Xmap, 0):
            return True      # the list was established non-empty through its length: its LRU end is not the sentinel
        st.empty[Xmap] = st.lenver.get(Xmap, 0)
        if len(Xmap[2]) < 2:
            return False
        root = (Xmap[1], Xmap[2][:-2])
        sg = st.sumge.get(root)
        if not sg:
            return False
        for (lm, ver) in sg:
            if st.lenver.get(lm, 0) != ver or st.empty.get(lm) != ver:
                return False
        return True

    def opaque_effects(self, interp, st, fr, info, ev):
        pass

    # ---- generic
    def identity(self, interp, st, fr, info):
        interp.event(st, fr, {"ev": "prim", "q": info["q"], "args": info["args"], "ln": info["ln"], "bb": info["bb"]})
        return [(st, info["args"][0])]

    def null(self, interp, st, fr, info):
        return [(st, ("const", "ptr", "null"))]

    def nn_new(self, interp, st, fr, info):
        """NonNull::new(p): None for the null pointer, Some(p) otherwise (a pointer read from a list link, a node or an allocation is
        never null: I_list; anything else may be either)"""
        p = info["args"][0]
        if p == ("const", "ptr", "null"):
            return [(st, NONE)]
        if isinstance(p, tuple) and p[0] in ("load", "alloc", "node", "boxed"):
            return [(st, some(p))]
        s0 = st.fork()
        return [(st, some(p)), (s0, NONE)]

    def nn_as_ref(self, interp, st, fr, info):
        # NonNull::as_ref(&self) / as_mut(&mut self): argument is a reference to the NonNull value
        p = interp.read(st, deref_loc(info["args"][0]))
        return [(st, p)]

    # ---- MaybeUninit
    def mu_assume_init(self, interp, st, fr, info):
        v = info["args"][0]
        interp.event(st, fr, {"ev": "assume_init", "val": v, "ln": info["ln"], "bb": info["bb"]})
        return [(st, v)]

    def mu_assume_init_read(self, interp, st, fr, info):
        loc = deref_loc(info["args"][0])
        v = interp.read(st, loc)
        interp.event(st, fr, {"ev": "ptr_read", "loc": loc, "val": v, "ln": info["ln"], "bb": info["bb"], "q": info["q"]})
        return [(st, v)]

    def mu_uninit(self, interp, st, fr, info):
        return [(st, ("uninit", ("mu", st.fresh())))]

    # ---- mem / ptr
    def mem_swap(self, interp, st, fr, info):
        la, lb = deref_loc(info["args"][0]), deref_loc(info["args"][1])
        va, vb = interp.read(st, la), interp.read(st, lb)
        interp.event(st, fr, {"ev": "swap", "a": la, "b": lb, "va": va, "vb": vb, "ln": info["ln"], "bb": info["bb"], "q": info["q"]})
        interp.write(st, la, vb)
        interp.write(st, lb, va)
        return [(st, ("unit",))]

    def mem_replace(self, interp, st, fr, info):
        la = deref_loc(info["args"][0])
        old = interp.read(st, la)
        interp.event(st, fr, {"ev": "replace", "loc": la, "old": old, "new": info["args"][1], "ln": info["ln"], "bb": info["bb"]})
        interp.write(st, la, info["args"][1])
        return [(st, old)]

    def mem_take(self, interp, st, fr, info):
        la = deref_loc(info["args"][0])
        old = interp.read(st, la)
        interp.event(st, fr, {"ev": "replace", "loc": la, "old": old, "new": ("default",), "ln": info["ln"], "bb": info["bb"]})
        interp.write(st, la, ("default", st.fresh()))
        return [(st, old)]

    def ptr_read(self, interp, st, fr, info):
        loc = deref_loc(info["args"][0])
        v = interp.read(st, loc)
        interp.event(st, fr, {"ev": "ptr_read", "loc": loc, "val": v, "ln": info["ln"], "bb": info["bb"], "q": info["q"]})
        return [(st, v)]

    def ptr_write(self, interp, st, fr, info):
        loc = deref_loc(info["args"][0])
        interp.event(st, fr, {"ev": "store", "loc": loc, "val": info["args"][1], "ln": info["ln"], "bb": info["bb"], "via": "ptr::write"})
        interp.write(st, loc, info["args"][1])
        return [(st, ("unit",))]

    def drop_in_place(self, interp, st, fr, info):
        loc = deref_loc(info["args"][0])
        v = interp.read(st, loc)
        interp.event(st, fr, {"ev": "drop_in_place", "loc": loc, "val": v, "ln": info["ln"], "bb": info["bb"], "unwind": info["unwind"],
                              "ty": info["arg_tys"][0]})
        return [(st, ("unit",))]

    def mem_drop(self, interp, st, fr, info):
        interp.event(st, fr, {"ev": "drop", "loc": None, "val": info["args"][0], "ty": info["arg_tys"][0], "head": info["arg_tys"][0],
                              "ln": info["ln"], "bb": info["bb"], "unwind": info["unwind"], "moved": False, "explicit": True})
        return [(st, ("unit",))]

    # ---- Box
    def box_new(self, interp, st, fr, info):
        p = ("alloc", st.fresh())
        st.store[("H", p, ())] = info["args"][0]
        interp.event(st, fr, {"ev": "box_new", "ptr": p, "val": info["args"][0], "ln": info["ln"], "bb": info["bb"], "ty": info["dty"]})
        return [(st, ("boxed", p))]

    def box_into_raw(self, interp, st, fr, info):
        b = info["args"][0]
        p = b[1] if isinstance(b, tuple) and b[0] == "boxed" else ("proj", b, ("raw",))
        interp.event(st, fr, {"ev": "into_raw", "ptr": p, "ln": info["ln"], "bb": info["bb"], "ty": info["arg_tys"][0], "q": info["q"]})
        return [(st, p)]

    def box_from_raw(self, interp, st, fr, info):
        p = info["args"][0]
        interp.event(st, fr, {"ev": "from_raw", "ptr": p, "ln": info["ln"], "bb": info["bb"], "ty": info["dty"]})
        return [(st, ("boxed", p))]

    # ---- Option
    def _fork_variant(self, interp, st, fr, v, names, info):
        """yield (state, variant) for each variant the value may have on this path"""
        k = variant_of(st, v)
        if k is not None:
            yield (st, k)
            return
        excl = st.variants.get(v)
        excl = excl[1] if isinstance(excl, tuple) and excl and excl[0] == "not" else ()
        first = True
        live = [n for n in names if n not in excl]
        for i, n in enumerate(live):
            s2 = st if i == len(live) - 1 else st.fork()
            s2.variants[v] = n
            s2.facts.append(("variant", v, n))
            interp.event(s2, fr, {"ev": "branch", "cond": ("discr", v, ()), "variant": n, "ln": info["ln"], "bb": info["bb"], "via": info["q"]})
            yield (s2, n)

    def opt_map(self, interp, st, fr, info):
        o, f = info["args"]
        for s2, k in self._fork_variant(interp, st, fr, o, ("Some", "None"), info):
            if k == "None":
                yield (s2, NONE)
            else:
                x = payload(interp, s2, o, "Some")
                for s3, rv in interp.call_closure(s2, fr, f, [x], info):
                    yield (s3, some(rv))

    def opt_inspect(self, interp, st, fr, info):
        o, f = info["args"]
        for s2, k in self._fork_variant(interp, st, fr, o, ("Some", "None"), info):
            if k == "None":
                yield (s2, NONE)
            else:
                x = payload(interp, s2, o, "Some")
                tl = ("T", s2.fresh(), ())
                s2.store[tl] = x
                for s3, rv in interp.call_closure(s2, fr, f, [("ref", tl)], info):
                    yield (s3, o)

    def opt_and_then(self, interp, st, fr, info):
        o, f = info["args"]
        for s2, k in self._fork_variant(interp, st, fr, o, ("Some", "None"), info):
            if k == "None":
                yield (s2, NONE)
            else:
                x = payload(interp, s2, o, "Some")
                for s3, rv in interp.call_closure(s2, fr, f, [x], info):
                    yield (s3, rv)

    def opt_or_else(self, interp, st, fr, info):
        o, f = info["args"]
        for s2, k in self._fork_variant(interp, st, fr, o, ("Some", "None"), info):
            if k == "Some":
                yield (s2, o)
            else:
                for s3, rv in interp.call_closure(s2, fr, f, [], info):
                    yield (s3, rv)

    def opt_unwrap_or(self, interp, st, fr, info):
        o, d = info["args"]
        for s2, k in self._fork_variant(interp, st, fr, o, ("Some", "None"), info):
            if k == "Some":
                # the default is dropped unused
                interp.event(s2, fr, {"ev": "drop", "loc": None, "val": d, "ty": info["arg_tys"][1], "head": info["arg_tys"][1], "ln": info["ln"],
                                      "bb": info["bb"], "unwind": info["unwind"], "moved": False, "implicit": "unwrap_or default"})
                yield (s2, payload(interp, s2, o, "Some"))
            else:
                yield (s2, d)

    def opt_unwrap_or_else(self, interp, st, fr, info):
        o, f = info["args"]
        for s2, k in self._fork_variant(interp, st, fr, o, ("Some", "None"), info):
            if k == "Some":
                yield (s2, payload(interp, s2, o, "Some"))
            else:
                for s3, rv in interp.call_closure(s2, fr, f, [], info):
                    yield (s3, rv)

    def opt_unwrap_or_default(self, interp, st, fr, info):
        o = info["args"][0]
        for s2, k in self._fork_variant(interp, st, fr, o, ("Some", "None"), info):
            if k == "Some":
                yield (s2, payload(interp, s2, o, "Some"))
            else:
                yield (s2, ("default", s2.fresh()))

    def opt_is_some(self, interp, st, fr, info):
        o = interp.read(st, deref_loc(info["args"][0]))
        for s2, k in self._fork_variant(interp, st, fr, o, ("Some", "None"), info):
            yield (s2, ("const", "bool", "1" if k == "Some" else "0"))

    def opt_is_none(self, interp, st, fr, info):
        o = interp.read(st, deref_loc(info["args"][0]))
        for s2, k in self._fork_variant(interp, st, fr, o, ("Some", "None"), info):
            yield (s2, ("const", "bool", "0" if k == "Some" else "1"))

    def opt_unwrap(self, interp, st, fr, info):
        o = info["args"][0]
        k = variant_of(st, o)
        interp.event(st, fr, {"ev": "unwrap", "q": info["q"], "val": o, "known": k, "ln": info["ln"], "bb": info["bb"], "nfacts": len(st.facts),
                              "exp": info.get("exp", False)})
        if k == "None":
            interp.aborted.append(Path(st.events, ("panic", "unwrap on None"), st.facts, st.variants, st))
            return  # certain panic: path ends
        if k is None:
            st.variants[o] = "Some"
        yield (st, payload(interp, st, o, "Some"))

    opt_expect = opt_unwrap

    def opt_ok_or(self, interp, st, fr, info):
        o, e = info["args"]
        for s2, k in self._fork_variant(interp, st, fr, o, ("Some", "None"), info):
            if k == "Some":
                yield (s2, ("agg", "adt", ("core::result::Result", "Ok"), (payload(interp, s2, o, "Some"),), ("0",)))
            else:
                yield (s2, ("agg", "adt", ("core::result::Result", "Err"), (e,), ("0",)))

    def opt_copied(self, interp, st, fr, info):
        o = info["args"][0]
        for s2, k in self._fork_variant(interp, st, fr, o, ("Some", "None"), info):
            if k == "None":
                yield (s2, NONE)
            else:
                x = payload(interp, s2, o, "Some")
                yield (s2, some(interp.read(s2, deref_loc(x))))

    opt_cloned = None

    def opt_as_ref(self, interp, st, fr, info):
        loc = deref_loc(info["args"][0])
        o = interp.read(st, loc)
        for s2, k in self._fork_variant(interp, st, fr, o, ("Some", "None"), info):
            if k == "None":
                yield (s2, NONE)
            else:
                yield (s2, some(mkref(loc_add(loc_add(loc, ("dc", "Some")), "0"))))

    opt_as_mut = opt_as_ref

    def opt_take(self, interp, st, fr, info):
        loc = deref_loc(info["args"][0])
        o = interp.read(st, loc)
        interp.event(st, fr, {"ev": "store", "loc": loc, "val": NONE, "ln": info["ln"], "bb": info["bb"], "via": "Option::take"})
        interp.write(st, loc, NONE)
        return [(st, o)]

    # ---- Result
    def res_map(self, interp, st, fr, info):
        o, f = info["args"]
        for s2, k in self._fork_variant(interp, st, fr, o, ("Ok", "Err"), info):
            if k == "Err":
                yield (s2, ("agg", "adt", ("core::result::Result", "Err"), (payload(interp, s2, o, "Err"),), ("0",)))
            else:
                x = payload(interp, s2, o, "Ok")
                for s3, rv in interp.call_closure(s2, fr, f, [x], info):
                    yield (s3, ("agg", "adt", ("core::result::Result", "Ok"), (rv,), ("0",)))

    def res_map_err(self, interp, st, fr, info):
        o, f = info["args"]
        for s2, k in self._fork_variant(interp, st, fr, o, ("Ok", "Err"), info):
            if k == "Ok":
                yield (s2, ("agg", "adt", ("core::result::Result", "Ok"), (payload(interp, s2, o, "Ok"),), ("0",)))
            else:
                x = payload(interp, s2, o, "Err")
                for s3, rv in interp.call_closure(s2, fr, f, [x], info):
                    yield (s3, ("agg", "adt", ("core::result::Result", "Err"), (rv,), ("0",)))

    def res_unwrap(self, interp, st, fr, info):
        o = info["args"][0]
        k = variant_of(st, o)
        interp.event(st, fr, {"ev": "unwrap", "q": info["q"], "val": o, "known": k, "ln": info["ln"], "bb": info["bb"], "nfacts": len(st.facts),
                              "exp": info.get("exp", False)})
        if k == "Err":
            interp.aborted.append(Path(st.events, ("panic", "unwrap on Err"), st.facts, st.variants, st))
            return
        if k is None:
            st.variants[o] = "Ok"
        yield (st, payload(interp, st, o, "Ok"))

    res_expect = res_unwrap

    @staticmethod
    def _ok(v):
        return ("agg", "adt", ("core::result::Result", "Ok"), (v,), ("0",))

    @staticmethod
    def _err(v):
        return ("agg", "adt", ("core::result::Result", "Err"), (v,), ("0",))

    def _drop_unused(self, interp, st, fr, info, idx, why):
        interp.event(st, fr, {"ev": "drop", "loc": None, "val": info["args"][idx], "ty": info["arg_tys"][idx], "head": info["arg_tys"][idx], "ln": info["ln"],
                              "bb": info["bb"], "unwind": info["unwind"], "moved": False, "implicit": why})

    def _fork_bool(self, interp, st, fr, b, info):
        """yield (state, truth) for a boolean term (a closure's verdict): constants decide, anything else forks like a switch"""
        ci = const_int(b)
        if ci is not None:
            yield (st, bool(ci))
            return
        for truth in (True, False):
            s2 = self.assume(interp, st, fr, b, truth, info)
            if s2 is not None:
                yield (s2, truth)

    def res_is_ok(self, interp, st, fr, info):
        o = interp.read(st, deref_loc(info["args"][0]))
        for s2, k in self._fork_variant(interp, st, fr, o, ("Ok", "Err"), info):
            yield (s2, ("const", "bool", "1" if k == "Ok" else "0"))

    def res_is_err(self, interp, st, fr, info):
        o = interp.read(st, deref_loc(info["args"][0]))
        for s2, k in self._fork_variant(interp, st, fr, o, ("Ok", "Err"), info):
            yield (s2, ("const", "bool", "0" if k == "Ok" else "1"))

    def res_and_then(self, interp, st, fr, info):
        o, f = info["args"]
        for s2, k in self._fork_variant(interp, st, fr, o, ("Ok", "Err"), info):
            if k == "Err":
                yield (s2, self._err(payload(interp, s2, o, "Err")))
            else:
                for s3, rv in interp.call_closure(s2, fr, f, [payload(interp, s2, o, "Ok")], info):
                    yield (s3, rv)

    def res_or_else(self, interp, st, fr, info):
        o, f = info["args"]
        for s2, k in self._fork_variant(interp, st, fr, o, ("Ok", "Err"), info):
            if k == "Ok":
                yield (s2, self._ok(payload(interp, s2, o, "Ok")))
            else:
                for s3, rv in interp.call_closure(s2, fr, f, [payload(interp, s2, o, "Err")], info):
                    yield (s3, rv)

    def res_unwrap_or_else(self, interp, st, fr, info):
        o, f = info["args"]
        for s2, k in self._fork_variant(interp, st, fr, o, ("Ok", "Err"), info):
            if k == "Ok":
                yield (s2, payload(interp, s2, o, "Ok"))
            else:
                for s3, rv in interp.call_closure(s2, fr, f, [payload(interp, s2, o, "Err")], info):
                    yield (s3, rv)

    def res_map_or(self, interp, st, fr, info):
        o, d, f = info["args"]
        for s2, k in self._fork_variant(interp, st, fr, o, ("Ok", "Err"), info):
            if k == "Err":
                yield (s2, d)
            else:
                self._drop_unused(interp, s2, fr, info, 1, "map_or default")
                for s3, rv in interp.call_closure(s2, fr, f, [payload(interp, s2, o, "Ok")], info):
                    yield (s3, rv)

    def res_map_or_else(self, interp, st, fr, info):
        o, d, f = info["args"]
        for s2, k in self._fork_variant(interp, st, fr, o, ("Ok", "Err"), info):
            if k == "Err":
                for s3, rv in interp.call_closure(s2, fr, d, [payload(interp, s2, o, "Err")], info):
                    yield (s3, rv)
            else:
                for s3, rv in interp.call_closure(s2, fr, f, [payload(interp, s2, o, "Ok")], info):
                    yield (s3, rv)

    # Result::ok / err / unwrap_or drop the unused payload (user Drop code): left opaque on purpose
    res_ok = None
    res_unwrap_or = None

    def opt_map_or(self, interp, st, fr, info):
        o, d, f = info["args"]
        for s2, k in self._fork_variant(interp, st, fr, o, ("Some", "None"), info):
            if k == "None":
                yield (s2, d)
            else:
                self._drop_unused(interp, s2, fr, info, 1, "map_or default")
                for s3, rv in interp.call_closure(s2, fr, f, [payload(interp, s2, o, "Some")], info):
                    yield (s3, rv)

    def opt_map_or_else(self, interp, st, fr, info):
        o, d, f = info["args"]
        for s2, k in self._fork_variant(interp, st, fr, o, ("Some", "None"), info):
            if k == "None":
                for s3, rv in interp.call_closure(s2, fr, d, [], info):
                    yield (s3, rv)
            else:
                for s3, rv in interp.call_closure(s2, fr, f, [payload(interp, s2, o, "Some")], info):
                    yield (s3, rv)

    def opt_ok_or_else(self, interp, st, fr, info):
        o, f = info["args"]
        for s2, k in self._fork_variant(interp, st, fr, o, ("Some", "None"), info):
            if k == "Some":
                yield (s2, self._ok(payload(interp, s2, o, "Some")))
            else:
                for s3, rv in interp.call_closure(s2, fr, f, [], info):
                    yield (s3, self._err(rv))

    def opt_is_some_and(self, interp, st, fr, info):
        o, f = info["args"]
        for s2, k in self._fork_variant(interp, st, fr, o, ("Some", "None"), info):
            if k == "None":
                yield (s2, ("const", "bool", "0"))
            else:
                for s3, rv in interp.call_closure(s2, fr, f, [payload(interp, s2, o, "Some")], info):
                    yield (s3, rv)

    def opt_is_none_or(self, interp, st, fr, info):
        o, f = info["args"]
        for s2, k in self._fork_variant(interp, st, fr, o, ("Some", "None"), info):
            if k == "None":
                yield (s2, ("const", "bool", "1"))
            else:
                for s3, rv in interp.call_closure(s2, fr, f, [payload(interp, s2, o, "Some")], info):
                    yield (s3, rv)

    def opt_filter(self, interp, st, fr, info):
        o, f = info["args"]
        for s2, k in self._fork_variant(interp, st, fr, o, ("Some", "None"), info):
            if k == "None":
                yield (s2, NONE)
                continue
            x = payload(interp, s2, o, "Some")
            tl = ("T", s2.fresh(), ())
            s2.store[tl] = x
            for s3, rv in interp.call_closure(s2, fr, f, [("ref", tl)], info):
                for s4, truth in self._fork_bool(interp, s3, fr, rv, info):
                    if truth:
                        yield (s4, some(x))
                    else:
                        interp.event(s4, fr, {"ev": "drop", "loc": None, "val": x, "ty": info["arg_tys"][0], "head": info["arg_tys"][0], "ln": info["ln"],
                                              "bb": info["bb"], "unwind": info["unwind"], "moved": False, "implicit": "filter rejected"})
                        yield (s4, NONE)

    def range_incl_new(self, interp, st, fr, info):
        a, b = info["args"]
        return [(st, ("agg", "adt", ("core::ops::RangeInclusive", None), (a, b), ("start", "end")))]

    def range_contains(self, interp, st, fr, info):
        """(a..b).contains(&x) / (a..=b).contains(&x) on numbers: `a <= x && x < b` resp. `x <= b`, as the two comparisons it is
        (each can come out false for NaN, exactly as in the if-form)"""
        r = interp.read(st, deref_loc(info["args"][0]))
        x = interp.read(st, deref_loc(info["args"][1]))
        if not (isinstance(r, tuple) and r[0] == "agg" and r[1] == "adt" and len(r[3]) >= 2 and tuple(r[4][:2]) == ("start", "end")):
            return None
        incl = "RangeInclusive" in info["q"]
        lo, hi = r[3][0], r[3][1]
        outs = []
        c1 = ("bin", "Le", lo, x)
        c2 = ("bin", "Le" if incl else "Lt", x, hi)
        s_f = self.assume(interp, st, fr, c1, False, info)
        if s_f is not None:
            outs.append((s_f, ("const", "bool", "0")))
        s_t = self.assume(interp, st, fr, c1, True, info)
        if s_t is not None:
            for truth in (True, False):
                s2 = self.assume(interp, s_t, fr, c2, truth, info)
                if s2 is not None:
                    outs.append((s2, ("const", "bool", "1" if truth else "0")))
        return outs

    def array_from_fn(self, interp, st, fr, info):
        """[T; N] built by calling the closure for every index: the closure body is entered once with a symbolic index and its
        result stands for every element (N from the result type)"""
        m = re.search(r";\s*(\d+)\]\s*$", info["dty"] or "")
        if not m or int(m.group(1)) > 64:
            return None
        n = int(m.group(1))
        f = info["args"][0]
        cid = st.fresh()
        idx = ("iter_item", cid, ("agg", "adt", ("core::ops::Range", None), (("const", "usize", "0"), ("const", "usize", str(n))), ("start", "end")))
        outs = []
        for s2, rv in interp.call_closure(st, fr, f, [idx], info):
            outs.append((s2, ("agg", "array", None, tuple(rv for _ in range(n)), tuple(str(i) for i in range(n)))))
        return outs

    def bool_then(self, interp, st, fr, info):
        b, f = info["args"]
        for s2, truth in self._fork_bool(interp, st, fr, b, info):
            if truth:
                for s3, rv in interp.call_closure(s2, fr, f, [], info):
                    yield (s3, some(rv))
            else:
                yield (s2, NONE)

    def bool_then_some(self, interp, st, fr, info):
        """b.then_some(v): Some(v) when b, otherwise v (already evaluated by the caller) is dropped and the answer is None"""
        b, v = info["args"]
        for s2, truth in self._fork_bool(interp, st, fr, b, info):
            if truth:
                yield (s2, some(v))
            else:
                interp.event(s2, fr, {"ev": "drop", "loc": None, "val": v, "ty": info["arg_tys"][1], "head": info["arg_tys"][1],
                                      "ln": info["ln"], "bb": info["bb"], "unwind": info["unwind"], "moved": False, "explicit": True})
                yield (s2, NONE)

    def try_branch_opt(self, interp, st, fr, info):
        o = info["args"][0]
        CF = "core::ops::ControlFlow"
        for s2, k in self._fork_variant(interp, st, fr, o, ("Some", "None"), info):
            if k == "Some":
                yield (s2, ("agg", "adt", (CF, "Continue"), (payload(interp, s2, o, "Some"),), ("0",)))
            else:
                yield (s2, ("agg", "adt", (CF, "Break"), (NONE,), ("0",)))

    def try_branch_res(self, interp, st, fr, info):
        o = info["args"][0]
        CF = "core::ops::ControlFlow"
        for s2, k in self._fork_variant(interp, st, fr, o, ("Ok", "Err"), info):
            if k == "Ok":
                yield (s2, ("agg", "adt", (CF, "Continue"), (payload(interp, s2, o, "Ok"),), ("0",)))
            else:
                e = ("agg", "adt", ("core::result::Result", "Err"), (payload(interp, s2, o, "Err"),), ("0",))
                yield (s2, ("agg", "adt", (CF, "Break"), (e,), ("0",)))

    def from_residual_opt(self, interp, st, fr, info):
        return [(st, NONE)]

    def from_residual_res(self, interp, st, fr, info):
        r = info["args"][0]
        if isinstance(r, tuple) and r[0] == "agg":
            return [(st, r)]
        return [(st, ("agg", "adt", ("core::result::Result", "Err"), (("proj", r, (("dc", "Err"), "0")),), ("0",)))]

    # ---- iterators with closures: one symbolic iteration (loop summarised)
    def _local_next(self, interp, ty):
        """body of `<ty as Iterator>::next` when ty is an iterator type of this crate"""
        m = re.match(r"[&\s]*(?:mut\s+)?([\w:]+)", ty or "")
        if not m:
            return None
        head = m.group(1)
        for im in interp.facts.doc["impls"]:
            if im.get("trait") == "core::iter::Iterator" and im.get("self_head") == head:
                for it in im["items"]:
                    fn = interp.facts.fns.get(it)
                    if fn and fn["name"] == "next":
                        return interp.facts.body(it)
        return None

    def _items(self, interp, st, fr, it, info, kind):
        """one symbolic step of an iteration: yields (state, item) for 'an item is produced' and (state, None) for 'exhausted'.
        Iterators of this crate are stepped through their own `next`; foreign ones yield an opaque item."""
        cid = st.fresh()
        interp.event(st, fr, {"ev": "loop", "kind": kind, "iter": it, "id": cid, "ln": info["ln"], "bb": info["bb"], "unwind": info["unwind"],
                              "iter_ty": info["arg_tys"][0]})
        body = self._local_next(interp, info["arg_tys"][0])
        if body is None:
            s0 = st.fork()
            interp.event(s0, fr, {"ev": "loop_end", "id": cid, "iters": 0})
            yield (s0, None, cid)
            yield (st, ("iter_item", cid, it), cid)
            return
        if isinstance(it, tuple) and it[0] == "ref":
            recv = it
        else:
            tl = ("T", st.fresh(), ())
            st.store[tl] = it
            recv = ("ref", tl)
        inf = dict(info, q=interp.facts.fns[body["path"]]["q"] if body["path"] in interp.facts.fns else "next")
        for s2, rv in interp.inline_call(st, fr, body, [recv], inf):
            for s3, k in self._fork_variant(interp, s2, fr, rv, ("Some", "None"), info):
                if k == "None":
                    interp.event(s3, fr, {"ev": "loop_end", "id": cid, "iters": 0})
                    yield (s3, None, cid)
                else:
                    yield (s3, payload(interp, s3, rv, "Some"), cid)

    # lazy adapters: `it.map(f)` is the pair (it, f); whoever draws an item from it draws one from `it` and applies `f`
    def iter_map(self, interp, st, fr, info):
        it, f = info["args"]
        if not (isinstance(f, tuple) and f[0] == "agg" and f[1] == "closure"):
            return None
        return [(st, ("agg", "adt", ("core::iter::Map", None), (it, f), ("iter", "f")))]

    @staticmethod
    def _is_lazy_map(it):
        return isinstance(it, tuple) and it[0] == "agg" and it[1] == "adt" and it[2][0] == "core::iter::Map" and len(it[3]) == 2

    def _produce(self, interp, st, fr, it, cid, info):
        """(state, item) for 'the iterator value `it` yields an item' (the item of a foreign source is opaque)"""
        if self._is_lazy_map(it):
            inner, f = it[3]
            for s2, x in self._produce(interp, st, fr, inner, cid, info):
                for s3, rv in interp.call_closure(s2, fr, f, self._closure_args(interp, f, x), info):
                    yield (s3, rv)
        else:
            yield (st, ("iter_item", cid, it))

    def iter_next_lazy(self, interp, st, fr, info):
        """`next` on a lazy map adapter held in a local (for loops): exhausted, or one item of the source through the closure"""
        r = info["args"][0]
        if not (isinstance(r, tuple) and r[0] == "ref"):
            return None
        it = interp.read(st, deref_loc(r))
        if not self._is_lazy_map(it):
            return None
        return self._next_lazy(interp, st, fr, it, info)

    def _next_lazy(self, interp, st, fr, it, info):
        cid = st.fresh()
        interp.event(st, fr, {"ev": "call", "q": info["q"], "args": info["args"], "id": cid, "ln": info["ln"], "bb": info["bb"], "unwind": info["unwind"],
                              "f": info["f"], "dty": info["dty"], "lazy_next": True})
        s0 = st.fork()
        yield (s0, NONE)
        for s2, x in self._produce(interp, st, fr, it, cid, info):
            yield (s2, some(x))

    def iter_for_each(self, interp, st, fr, info):
        it, f = info["args"]
        if self._local_next(interp, info["arg_tys"][0]) is not None:
            for s2, item, cid in self._items(interp, st, fr, it, info, "for_each"):
                if item is None:
                    yield (s2, ("unit",))
                    continue
                for s3, rv in interp.call_closure(s2, fr, f, self._closure_args(interp, f, item), info):
                    interp.event(s3, fr, {"ev": "loop_end", "id": cid, "iters": 1})
                    yield (s3, ("unit",))
            return
        cid = st.fresh()
        item = ("iter_item", cid, it)
        interp.event(st, fr, {"ev": "loop", "kind": "for_each", "iter": it, "id": cid, "ln": info["ln"], "bb": info["bb"], "unwind": info["unwind"],
                              "iter_ty": info["arg_tys"][0]})
        # zero iterations
        s0 = st.fork()
        interp.event(s0, fr, {"ev": "loop_end", "id": cid, "iters": 0})
        yield (s0, ("unit",))
        body = interp.facts.body(f[2]) if isinstance(f, tuple) and f[0] == "agg" and f[1] == "closure" else None
        nargs = body["arg_count"] - 1 if body else 1
        if nargs == 1:
            cargs = [item]
        else:
            cargs = [("proj", item, (str(i),)) for i in range(nargs)]
        for s1, item1 in self._produce(interp, st, fr, it, cid, info):
            if item1 != item:
                cargs = [item1] if nargs == 1 else [("proj", item1, (str(i),)) for i in range(nargs)]
            for s2, rv in interp.call_closure(s1, fr, f, cargs, info):
                interp.event(s2, fr, {"ev": "loop_end", "id": cid, "iters": 1})
                yield (s2, ("unit",))

    def _closure_args(self, interp, f, item, extra_first=()):
        body = interp.facts.body(f[2]) if isinstance(f, tuple) and f[0] == "agg" and f[1] == "closure" else None
        nargs = (body["arg_count"] - 1 - len(extra_first)) if body else 1
        if nargs == 1:
            return list(extra_first) + [item]
        return list(extra_first) + [("proj", item, (str(i),)) for i in range(nargs)]

    def iter_all_any(self, interp, st, fr, info):
        """Iterator::all / any: the verdict is the closure's verdict on the last item visited (true/false resp. when nothing is visited)"""
        it, f = info["args"]
        is_all = info["q"].split("::")[-1] == "all"
        cid = st.fresh()
        item = ("iter_item", cid, interp.read(st, deref_loc(it)) if isinstance(it, tuple) and it[0] == "ref" else it)
        interp.event(st, fr, {"ev": "loop", "kind": "all" if is_all else "any", "iter": it, "id": cid, "ln": info["ln"], "bb": info["bb"], "unwind": info["unwind"],
                              "iter_ty": info["arg_tys"][0]})
        s0 = st.fork()
        interp.event(s0, fr, {"ev": "loop_end", "id": cid, "iters": 0})
        yield (s0, ("const", "bool", "1" if is_all else "0"))
        for s1, item in self._produce(interp, st, fr, item[2], cid, info):
            for s2, rv in interp.call_closure(s1, fr, f, self._closure_args(interp, f, item), info):
                for s3, truth in self._fork_bool(interp, s2, fr, rv, info):
                    interp.event(s3, fr, {"ev": "loop_end", "id": cid, "iters": 1})
                    yield (s3, ("const", "bool", "1" if truth else "0"))

    def iter_fold(self, interp, st, fr, info):
        """Iterator::fold: no item -> the initial value; otherwise the closure's result on the last item, entered with an arbitrary
        accumulator of the result type (sound for any number of earlier iterations)"""
        it, init, f = info["args"]
        cid = st.fresh()
        item = ("iter_item", cid, it)
        interp.event(st, fr, {"ev": "loop", "kind": "fold", "iter": it, "id": cid, "ln": info["ln"], "bb": info["bb"], "unwind": info["unwind"],
                              "iter_ty": info["arg_tys"][0]})
        s0 = st.fork()
        interp.event(s0, fr, {"ev": "loop_end", "id": cid, "iters": 0})
        yield (s0, init)
        aid = st.fresh()
        interp.event(st, fr, {"ev": "call", "q": "<fold accumulator>", "args": [init], "id": aid, "ln": info["ln"], "bb": info["bb"], "dty": info["dty"],
                              "unwind": None, "synthetic": True})
        acc = ("call", aid, "<fold accumulator>")
        for s1, item in self._produce(interp, st, fr, it, cid, info):
            for s2, rv in interp.call_closure(s1, fr, f, self._closure_args(interp, f, item, (acc,)), info):
                interp.event(s2, fr, {"ev": "loop_end", "id": cid, "iters": 1})
                yield (s2, rv)

    # ---- HashMap<KeyRef<K>, NonNull<EntryNode>> and friends
    def _hm_recv(self, interp, st, info):
        return deref_loc(info["args"][0])

    def _keysrc(self, interp, st, karg):
        """canonical identity of the key a lookup is made with"""
        v = karg
        # &KeyRef{k: ptr}  -> ptr
        for _ in range(4):
            if isinstance(v, tuple) and v[0] == "ref":
                inner = interp.read(st, v[1])
                if isinstance(inner, tuple) and inner[0] == "agg" and inner[1] == "adt" and inner[2][0].endswith("KeyRef"):
                    return inner[3][0]
            break
        return v

    def _canon_key(self, interp, st, ks):
        """a by-value key held in a local is identified by its (opaque) value, so that it stays the same key when it is
        moved into a callee frame; pointers into nodes and &Q parameters identify themselves"""
        if isinstance(ks, tuple) and ks[0] == "ref" and ks[1][0] in ("L", "T"):
            v = interp.read(st, ks[1])
            if isinstance(v, tuple) and v[0] == "moved":
                v = v[1]
            if isinstance(v, tuple) and v[0] in ("param", "call", "proj", "load", "iter_item"):
                return ("kv", v)
        return ks

    @staticmethod
    def _home_list(n):
        """the list (location of its map) a node value is known to live in, from its provenance"""
        if isinstance(n, tuple) and n[0] == "node":
            return n[2]
        if isinstance(n, tuple) and n[0] == "load" and n[1][0] == "H" and n[1][2] in (("prev",), ("next",)):
            s_ = n[1][1]
            if isinstance(s_, tuple) and s_[0] == "load" and s_[1][0] == "H" and s_[1][2][-1:] in (("tail",), ("head",)):
                return ("H", s_[1][1], s_[1][2][:-1] + ("map",))
        return None

    def _is_entry(self, st, X, own):
        """own is known to be an entry (not a sentinel): it was found by a lookup, or it is the LRU/MRU end of a list that is
        known to be non-empty on this path"""
        home = self._home_list(own)
        if not (isinstance(own, tuple) and own[0] == "load"):
            return True
        if home is None:
            return True
        ver = st.lenver.get(home, 0)
        return st.nonempty.get(home) == ver

    def _node_of_key(self, keysrc):
        """if the key pointer points at the `key` field of a node, that node"""
        if isinstance(keysrc, tuple) and keysrc[0] == "ref":
            loc = keysrc[1]
            if loc[0] == "H" and loc[2] and loc[2][0] == "key":
                return loc[1]
        return None

    def _is_node_map(self, info):
        return "NonNull<lru::raw::EntryNode" in info["f"].get("self_ty", "")

    def _slack(self, interp, st, X, d):
        if X[0] == "H" and len(X[2]) >= 2 and X[2][-1] == "map" and X[2][-2] in self.rb(interp):
            root = (X[1], X[2][:-2])
            st.slack[root] = st.slack.get(root, 0) + d

    def _generic_lookup(self, interp, st, fr, info, kind):
        """HashMap<u64, i64> and friends: no node semantics, just presence forks and value locations"""
        X = self._hm_recv(interp, st, info)
        ks = info["args"][1]
        if isinstance(ks, tuple) and ks[0] == "ref":
            ks = interp.read(st, ks[1])
        cid = st.fresh()
        known = st.member.get((X, ks))
        outs = []
        for present in (True, False):
            if known is not None and known != present:
                continue
            s2 = st if (known is not None) else st.fork()
            if known is None:
                s2.facts.append(("member", X, ks, present))
            vloc = ("H", ("mapslot", X, ks), ())
            ev = {"ev": "call", "q": info["q"], "hm": kind, "generic": True, "recv": X, "keysrc": ks, "present": present, "id": cid,
                  "args": info["args"], "ln": info["ln"], "bb": info["bb"], "unwind": info["unwind"], "f": info["f"], "slot": vloc}
            interp.event(s2, fr, ev)
            if kind == "remove":
                s2.member[(X, ks)] = False
                if present:
                    s2.lenver[X] = s2.lenver.get(X, 0) + 1
                    outs.append((s2, some(interp.read(s2, vloc))))
                else:
                    outs.append((s2, NONE))
            elif kind in ("get", "get_mut"):
                s2.member[(X, ks)] = present
                outs.append((s2, some(("ref", vloc)) if present else NONE))
            else:
                s2.member[(X, ks)] = present
                outs.append((s2, ("const", "bool", "1" if present else "0")))
        return outs

    def _lookup(self, interp, st, fr, info, kind):
        if not self._is_node_map(info):
            return self._generic_lookup(interp, st, fr, info, kind)
        X = self._hm_recv(interp, st, info)
        ks = self._canon_key(interp, st, self._keysrc(interp, st, info["args"][1]))
        own = self._node_of_key(ks)
        cid = st.fresh()
        known = st.member.get((X, ks))
        if known is None and own is not None and self.assume_consistent_eq and self.identify_own_key and self._is_entry(st, X, own):
            # pruning rule P1 applied to a node's own key: a list member's key is in that list's index (I_list)
            known = True
        if known is None and isinstance(ks, tuple) and ks[0] == "kv":
            # pruning rule P5 (one partition): the key just moved out of an entry of list Y is not in a sibling list X
            kv = ks[1]
            n = None
            if kv[0] == "load" and kv[1][0] == "H" and kv[1][2] == ("key",):
                n = kv[1][1]
            elif kv[0] == "proj" and kv[2] == ("key",) and isinstance(kv[1], tuple) and kv[1][0] == "load" and kv[1][1][0] == "H" and kv[1][1][2] == ():
                n = kv[1][1][1]
            home = self._home_list(n) if n is not None else None
            if home is not None and home != X and home[0] == "H" and X[0] == "H" and home[1] == X[1]:
                known = False
        outs = []
        for present in (True, False):
            if known is not None and known != present:
                continue
            s2 = st if (known is not None) else st.fork()
            if known is None:
                s2.facts.append(("member", X, ks, present))
            ev = {"ev": "call", "q": info["q"], "hm": kind, "recv": X, "keysrc": ks, "present": present, "id": cid, "args": info["args"],
                  "ln": info["ln"], "bb": info["bb"], "unwind": info["unwind"], "user": True, "pruned": known is not None, "f": info["f"]}
            if present:
                if own is not None and not self.identify_own_key:
                    # "orphan" mode (C18.R6): after a leak-type unwind a list may hold a linked-but-unindexed node next to a re-inserted
                    # copy of its key, so the node the index returns for a node's own key need not be that node
                    node = st.member.get(("node", X, ks)) or ("node", cid, X, ks)
                else:
                    node = own if own is not None else st.member.get(("node", X, ks)) or ("node", cid, X, ks)
                ev["node"] = node
            interp.event(s2, fr, ev)
            if kind == "remove":
                if present:
                    s2.member[(X, ks)] = False
                    s2.member.pop(("node", X, ks), None)
                    if own is not None:
                        # the evicted end node may be the node of any key we believed present: weaken those facts (kill rule of D7)
                        for mk in [mk for mk, mv in s2.member.items() if len(mk) == 2 and mk[0] == X and mv is True and mk[1] != ks]:
                            del s2.member[mk]
                            s2.member.pop(("node", X, mk[1]), None)
                    # a removal from X invalidates what we knew about other keys being present? no: other keys stay.
                    s2.lenver[X] = s2.lenver.get(X, 0) + 1
                    s2.lencount[X] = s2.lencount.get(X, 0) - 1
                    s2.roomx[X] = True
                    self._slack(interp, s2, X, +1)
                    outs.append((s2, some(node)))
                else:
                    s2.member[(X, ks)] = False
                    outs.append((s2, NONE))
            elif kind in ("get", "get_mut"):
                s2.member[(X, ks)] = present
                if present:
                    s2.nonempty[X] = s2.lenver.get(X, 0)
                    s2.member[("node", X, ks)] = node
                    tl = ("T", s2.fresh(), ())
                    s2.store[tl] = node
                    outs.append((s2, some(("ref", tl))))
                else:
                    outs.append((s2, NONE))
            elif kind == "contains_key":
                s2.member[(X, ks)] = present
                if present:
                    s2.nonempty[X] = s2.lenver.get(X, 0)
                    s2.member[("node", X, ks)] = node
                outs.append((s2, ("const", "bool", "1" if present else "0")))
        return outs

    def hm_get(self, interp, st, fr, info):
        return self._lookup(interp, st, fr, info, "get")

    def hm_get_mut(self, interp, st, fr, info):
        return self._lookup(interp, st, fr, info, "get_mut")

    def hm_remove(self, interp, st, fr, info):
        return self._lookup(interp, st, fr, info, "remove")

    def hm_contains_key(self, interp, st, fr, info):
        return self._lookup(interp, st, fr, info, "contains_key")

    def hm_insert(self, interp, st, fr, info):
        X = self._hm_recv(interp, st, info)
        if not self._is_node_map(info):
            k = info["args"][1]
            cid = st.fresh()
            vloc = ("H", ("mapslot", X, k), ())
            known = st.member.get((X, k))
            outs = []
            for present in (True, False):
                if known is not None and known != present:
                    continue
                s2 = st if known is not None else st.fork()
                old = interp.read(s2, vloc)
                interp.event(s2, fr, {"ev": "call", "q": info["q"], "hm": "insert", "generic": True, "recv": X, "keysrc": k, "value": info["args"][2],
                                      "present": present, "id": cid, "args": info["args"], "ln": info["ln"], "bb": info["bb"], "unwind": info["unwind"],
                                      "f": info["f"], "slot": vloc, "old": old})
                interp.write(s2, vloc, info["args"][2])
                s2.member[(X, k)] = True
                s2.lenver[X] = s2.lenver.get(X, 0) + 1
                outs.append((s2, some(old) if present else NONE))
            return outs
        k = info["args"][1]
        ks = k[3][0] if isinstance(k, tuple) and k[0] == "agg" and k[1] == "adt" and k[2][0].endswith("KeyRef") else k
        cid = st.fresh()
        slack = None
        if X[0] == "H" and len(X[2]) >= 2 and X[2][-2] in self.rb(interp):
            slack = st.slack.get((X[1], X[2][:-2]), 0)
        interp.event(st, fr, {"ev": "call", "q": info["q"], "hm": "insert", "recv": X, "keysrc": ks, "key": k, "value": info["args"][2], "id": cid, "slack": slack,
                              "args": info["args"], "ln": info["ln"], "bb": info["bb"], "unwind": info["unwind"], "user": True, "f": info["f"]})
        st.member[(X, ks)] = True
        st.lenver[X] = st.lenver.get(X, 0) + 1
        st.lencount[X] = st.lencount.get(X, 0) + 1
        st.nonempty[X] = st.lenver[X]
        st.roomx.pop(X, None)
        self._slack(interp, st, X, -1)
        return [(st, ("call", cid, info["q"]))]

    def _fresh_map(self, interp, st, X):
        v = interp.read(st, X)
        return isinstance(v, tuple) and v[0] == "call" and "HashMap" in v[2] and v[2].split("::")[-1] in (
            "with_capacity_and_hasher", "with_hasher", "new", "with_capacity", "default")

    def hm_len(self, interp, st, fr, info):
        X = self._hm_recv(interp, st, info)
        if self._fresh_map(interp, st, X):
            return [(st, ("const", "usize", str(max(0, st.lencount.get(X, 0)))))]
        return [(st, ("len", X, st.lenver.get(X, 0)))]

    def hm_is_empty(self, interp, st, fr, info):
        X = self._hm_recv(interp, st, info)
        if self._fresh_map(interp, st, X):
            return [(st, ("const", "bool", "1" if st.lencount.get(X, 0) <= 0 else "0"))]
        return [(st, ("bin", "Eq", ("len", X, st.lenver.get(X, 0)), ("const", "usize", "0")))]

    def hm_clear(self, interp, st, fr, info):
        X = self._hm_recv(interp, st, info)
        cid = st.fresh()
        interp.event(st, fr, {"ev": "call", "q": info["q"], "hm": "clear", "generic": not self._is_node_map(info), "recv": X, "id": cid,
                              "args": info["args"], "ln": info["ln"], "bb": info["bb"], "unwind": info["unwind"], "f": info["f"], "keysrc": None})
        st.lenver[X] = st.lenver.get(X, 0) + 1
        for k in [k for k in st.member if k[0] == X]:
            del st.member[k]
        return [(st, ("unit",))]
