"""List-level view of an abstract path for the routing-conformance rules (C06-C10)."""
from .absint import fmt_val, fmt_loc, subterms
from .nt import fmt_list, end_load, payload_field
from . import absint

READER = absint.Interp(None)
SELF = ("param", 1, True)


def lname(X):
    """field path of a list relative to self: ('recent',) / ('slru','protected') / ()  (None if not rooted at self)"""
    if X is None:
        return None
    if X[0] == "H" and X[1] == SELF:
        return X[2]
    return None


def is_key(p, e, KP):
    ks = e.get("keysrc")
    if ks == KP or ks == ("kv", KP):
        return True
    if isinstance(ks, tuple) and ks[0] == "ref" and ks[1][0] in ("L", "T"):
        v = READER.read(p.st, ks[1])
        if isinstance(v, tuple) and v[0] == "moved":
            v = v[1]
        return v == KP
    return False


class View:
    """events_on of a walker, with list names and the caller's-key classification"""

    def __init__(self, p, w, KP=("param", 2, False)):
        self.p, self.w, self.KP = p, w, KP
        self.ev = []          # (idx, kind, listname, node, raw)
        for ev in w.events_on:
            self.ev.append((ev[0], ev[1], lname(ev[2]), ev[3], ev))
        self.key_hits = {}    # listname -> node  (lookups made with the caller's key that hit)
        self.key_miss = set()
        for (i, kind, L, n, raw) in self.ev:
            e = p.events[i]
            if kind in ("lookup-hit", "unindex") and n is not None and is_key(p, e, KP):
                self.key_hits.setdefault(L, n)
            elif kind in ("lookup-miss", "remove-miss") and is_key(p, e, KP):
                self.key_miss.add(L)

    def empty_attempts(self):
        """[(event idx, listname)] of remove-the-LRU attempts that found the list empty ((*X.tail).prev == X.head)"""
        out = []
        for i, e in enumerate(self.p.events):
            if e["ev"] != "branch" or "outcome" not in e:
                continue
            c = e.get("cond")
            if not (isinstance(c, tuple) and c[0] == "bin" and c[1] in ("Ne", "Eq")):
                continue
            for x, y in ((c[2], c[3]), (c[3], c[2])):
                el = end_load(x)
                if el is not None and isinstance(y, tuple) and y[0] == "load" and y[1][0] == "H" and y[1][2][-1:] == ("head",):
                    o = e["outcome"]
                    truth = ("0" in [str(z) for z in o[1]]) if isinstance(o, tuple) else (str(o) not in ("0", "false"))
                    is_empty = (c[1] == "Ne") != truth
                    if is_empty:
                        out.append((i, lname(el[0])))
        return out

    def of(self, *kinds, lst=None, node=None):
        return [x for x in self.ev if x[1] in kinds and (lst is None or x[2] == lst) and (node is None or x[3] == node)]

    def lists_with(self, *kinds):
        return set(x[2] for x in self.ev if x[1] in kinds)

    def final(self, n):
        st = self.w.nodes.get(n)
        if st is None:
            return (None, None, None)
        return (lname(st.link[1]) if isinstance(st.link, tuple) else None, lname(st.index[1]) if isinstance(st.index, tuple) else None, st.own)

    def refreshed(self, n, lst):
        """detach(n) followed by attach(n) on the same list"""
        d = [x[0] for x in self.of("detach", lst=lst, node=n)]
        a = [x[0] for x in self.of("attach", lst=lst, node=n)]
        return bool(d) and bool(a) and min(d) < max(a)

    def victim_source(self, n):
        """('tail'|'head', listname) if node n is the LRU/MRU end of a list (by provenance)"""
        el = end_load(n)
        if el is None:
            return None
        X, which, sent = el
        return (sent, which, lname(X))

    def ret_variant(self):
        rv = self.p.ret
        if isinstance(rv, tuple) and rv[0] == "agg" and rv[1] == "adt":
            return rv[2][1]
        return None


def cond_facts(p):
    """[(cond term, truth)] of the branch facts of a path, in order"""
    out = []
    for e in p.events:
        if e["ev"] == "branch" and "outcome" in e and isinstance(e.get("cond"), tuple):
            o = e["outcome"]
            if isinstance(o, tuple) and o and o[0] == "not":
                truth = True if "0" in [str(x) for x in o[1]] else None
            else:
                truth = str(o) not in ("0", "false")
            if truth is not None:
                out.append((e["cond"], truth, e))
    return out


FLIP = {"Lt": "Gt", "Gt": "Lt", "Le": "Ge", "Ge": "Le", "Eq": "Eq", "Ne": "Ne"}
NEG = {"Eq": "Ne", "Ne": "Eq", "Lt": "Ge", "Ge": "Lt", "Gt": "Le", "Le": "Gt"}


def norm_cmp(c, truth, left_pred):
    """normalise a comparison fact so that the operand satisfying left_pred is on the left and the fact is stated positively:
    returns (op, left, right) or None"""
    if not (isinstance(c, tuple) and c[0] == "bin" and c[1] in FLIP):
        return None
    op, a, b = c[1], c[2], c[3]
    if left_pred(a):
        pass
    elif left_pred(b):
        op, a, b = FLIP[op], b, a
    else:
        return None
    if not truth:
        op = NEG[op]
    return (op, a, b)


def outer_enters(p, pred, with_index=False):
    """the calls (enter events) on a path that satisfy pred and are not made from inside another call that satisfies pred - wherever
    they sit in the call tree (directly in the analysed function, in a private helper, in a closure of a combinator)"""
    out, stack = [], []
    for i, e in enumerate(p.events):
        if e["ev"] == "enter" and pred(e):
            if not stack:
                out.append((i, e) if with_index else e)
            stack.append(e["callee_fid"])
        elif e["ev"] == "exit" and stack and e.get("callee_fid") == stack[-1]:
            stack.pop()
    return out


def q_is(*suffixes):
    return lambda e: (e["q"] or "").endswith(suffixes)


IMPLIES = {"Lt": ("Lt", "Le", "Ne"), "Le": ("Le",), "Gt": ("Gt", "Ge", "Ne"), "Ge": ("Ge",), "Eq": ("Eq", "Le", "Ge"), "Ne": ("Ne",)}


def established(facts, op, a, b):
    """does a branch fact of the path state (in either operand order, positively or as a failed test) a relation between the
    terms a and b that implies `a op b`?   facts: iterable of (cond, truth, ...)"""
    for f in facts:
        c, t = f[0], f[1]
        if not (isinstance(c, tuple) and c[0] == "bin" and c[1] in FLIP) or t is None:
            continue
        for o, x, y in ((c[1], c[2], c[3]), (FLIP[c[1]], c[3], c[2])):
            if x == a and y == b:
                oo = o if t else NEG[o]
                if op in IMPLIES[oo]:
                    return True
    return False


def truth_of(facts, op, a, b):
    """True / False if the path's branch facts decide `a op b` (either operand order, passed or failed test), else None"""
    if established(facts, op, a, b):
        return True
    if established(facts, NEG[op], a, b):
        return False
    return None


def is_len_of(field_path):
    def pred(t):
        return isinstance(t, tuple) and t[0] == "len" and t[1] == ("H", SELF, tuple(field_path) + ("map",))
    return pred


def is_load_of(field_path):
    def pred(t):
        return isinstance(t, tuple) and t[0] == "load" and t[1] == ("H", SELF, tuple(field_path))
    return pred
