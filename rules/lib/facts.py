"""Loading and indexing of the fact files written by /verif/factdump (one per feature configuration).

No rule logic here: this module only (re)generates the facts from /repo's current working tree
(content-hash keyed cache, fail-closed if the driver did not rewrite the file) and indexes them.
"""
import hashlib
import json
import os
import subprocess
import sys
import time
import fcntl

VERIF = os.path.dirname(os.path.dirname(os.path.dirname(os.path.abspath(__file__))))
REPO = os.environ.get("VERIF_REPO", "/repo")
CACHE = os.environ.get("VERIF_CACHE", os.path.join(VERIF, ".cache"))
DRIVER = os.path.join(VERIF, "factdump", "target", "release", "factdump")

CONFIGS = {
    "std": [],
    "no_std": ["--no-default-features", "--features", "hashbrown,libm"],
}

# floors measured on the pinned tree (after the fix: commits); a run that sees fewer bodies fails closed
BODY_FLOOR = {"std": 480, "no_std": 470}


class AnalysisError(Exception):
    """The analysis could not decide (missing anchor, floor not met, unknown construct)."""


def tree_hash(repo=None):
    repo = repo or REPO
    h = hashlib.sha256()
    paths = []
    for root, dirs, files in os.walk(os.path.join(repo, "src")):
        dirs.sort()
        for f in sorted(files):
            paths.append(os.path.join(root, f))
    for extra in ("Cargo.toml", "Cargo.lock"):
        p = os.path.join(repo, extra)
        if os.path.exists(p):
            paths.append(p)
    for p in paths:
        h.update(os.path.relpath(p, repo).encode())
        h.update(b"\0")
        with open(p, "rb") as fh:
            h.update(fh.read())
        h.update(b"\0")
    # the driver itself is part of the key
    if os.path.exists(DRIVER):
        with open(DRIVER, "rb") as fh:
            h.update(hashlib.sha256(fh.read()).digest())
    return h.hexdigest()


def _sysroot():
    return subprocess.check_output(["rustc", "+nightly", "--print", "sysroot"], text=True).strip()


def build_driver():
    if os.path.exists(DRIVER):
        return
    env = dict(os.environ, CARGO_NET_OFFLINE="true")
    r = subprocess.run(
        ["cargo", "build", "--release", "--offline"],
        cwd=os.path.join(VERIF, "factdump"), env=env, capture_output=True, text=True,
    )
    if r.returncode != 0 or not os.path.exists(DRIVER):
        raise AnalysisError("cannot build factdump driver:\n" + r.stderr[-4000:])


def generate(cfg, repo=None, force=False):
    """(Re)generate the fact file of one configuration from the current working tree of `repo`."""
    repo = repo or REPO
    os.makedirs(CACHE, exist_ok=True)
    build_driver()
    key = tree_hash(repo)
    out = os.path.join(CACHE, "facts-%s.json" % cfg)
    stamp = out + ".hash"
    lock = open(os.path.join(CACHE, "lock-%s" % cfg), "w")
    fcntl.flock(lock, fcntl.LOCK_EX)
    try:
        if not force and os.path.exists(out) and os.path.exists(stamp) and open(stamp).read().strip() == key:
            return out, False
        tdir = os.path.join(CACHE, "target-%s" % cfg)
        # cargo's freshness cache would skip the wrapper on a warm target dir: drop the crate's fingerprint
        fpd = os.path.join(tdir, "debug", ".fingerprint")
        if os.path.isdir(fpd):
            for d in os.listdir(fpd):
                if d.startswith("caches-"):
                    subprocess.run(["rm", "-rf", os.path.join(fpd, d)])
        tmp = out + ".tmp"
        if os.path.exists(tmp):
            os.remove(tmp)
        env = dict(os.environ)
        env.update({
            "CARGO_NET_OFFLINE": "true",
            "LD_LIBRARY_PATH": _sysroot() + "/lib",
            "RUSTFLAGS": "-Zmir-opt-level=0 -Coverflow-checks=on -Cdebug-assertions=off -Awarnings",
            "RUSTC_WORKSPACE_WRAPPER": DRIVER,
            "FACTDUMP_OUT": tmp,
            "FACTDUMP_CRATE": "caches",
            "CARGO_TARGET_DIR": tdir,
        })
        env.pop("RUSTC_WRAPPER", None)
        cmd = ["cargo", "+nightly", "check", "--offline", "--lib", "--manifest-path", os.path.join(repo, "Cargo.toml")] + CONFIGS[cfg]
        r = subprocess.run(cmd, env=env, capture_output=True, text=True)
        if r.returncode != 0:
            raise AnalysisError("cargo check (%s) failed:\n%s" % (cfg, r.stderr[-6000:]))
        if not os.path.exists(tmp):
            raise AnalysisError("factdump did not write %s (driver skipped?)\n%s" % (tmp, r.stderr[-2000:]))
        os.replace(tmp, out)
        with open(stamp, "w") as fh:
            fh.write(key)
        return out, True
    finally:
        fcntl.flock(lock, fcntl.LOCK_UN)
        lock.close()


class Facts:
    def __init__(self, cfg, doc, repo):
        self.cfg = cfg
        self.repo = repo
        self.doc = doc
        self.fns = {f["path"]: f for f in doc["fns"]}
        self.bodies = {b["path"]: b for b in doc["bodies"]}
        self.promoted = {b["path"]: b for b in doc.get("promoted", [])}     # promoted constants of the bodies (`&(0.0..=1.0)` ...)
        self.impls = {i["path"]: i for i in doc["impls"]}
        self.adts = {a["name"]: a for a in doc["adts"]}
        self.traits = {t["name"]: t for t in doc["traits"]}
        self.by_q = {}
        for f in doc["fns"]:
            self.by_q.setdefault(f["q"], []).append(f)
        if doc["n_bodies"] < BODY_FLOOR[cfg]:
            raise AnalysisError("only %d bodies in %s facts (floor %d): analysed tree is incomplete" % (doc["n_bodies"], cfg, BODY_FLOOR[cfg]))
        self._src = {}

    # ---- lookups
    def fn(self, path):
        return self.fns[path]

    def body(self, path):
        return self.bodies.get(path)

    def fns_named(self, q):
        """all fn items whose qualified name is exactly q"""
        return self.by_q.get(q, [])

    def find(self, q_suffix):
        """the unique fn whose qualified name ends with q_suffix (fail-closed if not unique)"""
        c = [f for f in self.doc["fns"] if f["q"] == q_suffix or f["q"].endswith("::" + q_suffix) or f["q"].endswith(q_suffix)]
        if len(c) != 1:
            raise AnalysisError("anchor %r matches %d functions in %s" % (q_suffix, len(c), self.cfg))
        return c[0]

    def impl_of(self, f):
        p = f.get("parent")
        return self.impls.get(p) if p else None

    def methods(self, self_head, trait=None, include_trait_impls=True):
        """fn items in impls whose Self type head is self_head"""
        out = []
        for f in self.doc["fns"]:
            if f["kind"] != "AssocFn":
                continue
            im = self.impl_of(f)
            if not im or im["self_head"] != self_head:
                continue
            if trait is not None and im["trait"] != trait:
                continue
            if not include_trait_impls and im["trait"]:
                continue
            out.append(f)
        return out

    def closures_of(self, path):
        return [f for f in self.doc["fns"] if f["kind"] == "Closure" and f.get("parent") == path]

    def src_line(self, file, line):
        if file not in self._src:
            try:
                with open(os.path.join(self.repo, file)) as fh:
                    self._src[file] = fh.read().split("\n")
            except OSError:
                self._src[file] = []
        ls = self._src[file]
        return ls[line - 1].strip() if 0 < line <= len(ls) else ""

    def loc(self, fpath, line=None):
        f = self.fns.get(fpath)
        if not f:
            return fpath
        return "%s:%s" % (f["span"]["file"], line if line else f["span"]["lo"])


# ------------------------------------------------------------------ canonical names of private fields
# The rules name the private fields of the composite caches the way the pinned tree does (`recent`, `protected_size`, `p`, ...).  These
# names are NOT part of the API; what is, are the public accessors.  So the field names are re-derived from the accessors on every load
# and, where the tree uses other names, the facts are rewritten to the canonical ones (ADT field lists and every place projection):
#   <role>_len()  returns the length of list field F        =>  F is called <role>
#   <role>_cap()  returns the scalar field G (SegmentedCache) =>  G is called <role>_size
#   Cache::cap()  returns the single scalar field S (2Q, ARC) =>  S is called size
#   the one remaining usize field of ARC / 2Q                 =>  p / recent_size
CANON_TYPES = ("lru::segmented::SegmentedCache", "lru::two_queue::TwoQueueCache", "lru::adaptive::AdaptiveCache")
REST_NAME = {"lru::adaptive::AdaptiveCache": "p", "lru::two_queue::TwoQueueCache": "recent_size"}


# setter name -> field name on the pinned tree, where the two differ
BUILDER_CANON = {
    ("AdaptiveCacheBuilder", "frequent_hasher"): "freq_hasher", ("AdaptiveCacheBuilder", "frequent_evict_hasher"): "freq_evict_hasher",
    ("TwoQueueCacheBuilder", "frequent_hasher"): "freq_hasher",
    ("WTinyLFUCacheBuilder", "protected_cache_size"): "main_cache_protected_size", ("WTinyLFUCacheBuilder", "probationary_cache_size"): "main_cache_probationary_size",
    ("WTinyLFUCacheBuilder", "window_hasher"): "window_cache_hasher", ("WTinyLFUCacheBuilder", "protected_hasher"): "main_cache_protected_hasher",
    ("WTinyLFUCacheBuilder", "probationary_hasher"): "main_cache_probationary_hasher",
}


def _setter_target(b, adt):
    """the field(s) of the builder that receive the setter's argument (directly or wrapped in Some)"""
    carriers = {2}
    changed = True
    while changed:
        changed = False
        for blk in b["blocks"]:
            for st in blk["s"]:
                if st["k"] != "assign" or st["p"]["p"]:
                    continue
                r = st["r"]
                srcs = []
                if r["k"] in ("use", "cast") and r.get("o"):
                    srcs = [r["o"]]
                if r["k"] == "agg" and str(r.get("adt", "")).endswith("Option"):
                    srcs = r.get("os", [])
                if any(o.get("k") in ("move", "copy") and o["p"]["l"] in carriers and not o["p"]["p"] for o in srcs) and st["p"]["l"] not in carriers:
                    carriers.add(st["p"]["l"])
                    changed = True
    out = set()
    for blk in b["blocks"]:
        for st in blk["s"]:
            if st["k"] != "assign":
                continue
            r = st["r"]
            flds = [e["n"] for e in st["p"]["p"] if isinstance(e, dict) and e.get("of") == adt]
            if flds and r["k"] in ("use", "cast") and r["o"].get("k") in ("move", "copy") and r["o"]["p"]["l"] in carriers:
                out.add(flds[-1])
            if r["k"] == "agg" and r.get("adt") == adt:
                for fld, o in zip(r.get("fields", []), r.get("os", [])):
                    if o.get("k") in ("move", "copy") and o["p"]["l"] in carriers and not o["p"]["p"]:
                        out.add(fld)
    return out


def _fields_used(body, adt):
    out = set()

    def walk(o):
        if isinstance(o, dict):
            if o.get("of") == adt and "n" in o and "f" in o:
                out.add(o["n"])
            for v in o.values():
                walk(v)
        elif isinstance(o, list):
            for v in o:
                walk(v)
    walk(body["blocks"])
    return out


def canonical_field_names(doc):
    bodies = {b["path"]: b for b in doc["bodies"]}
    impls = {i["path"]: i for i in doc["impls"]}
    renames = {}
    for adt in doc["adts"]:
        name = adt["name"]
        if name not in CANON_TYPES or adt["kind"] != "Struct":
            continue
        fields = adt["variants"][0]["fields"]
        lists = [f["n"] for f in fields if f["ty"].startswith("lru::raw::RawLRU<")]
        scalars = [f["n"] for f in fields if f["ty"] == "usize"]
        m = {}
        for fn in doc["fns"]:
            im = impls.get(fn.get("parent"))
            if fn.get("kind") != "AssocFn" or not im or im.get("self_head") != name or fn["path"] not in bodies:
                continue
            used = _fields_used(bodies[fn["path"]], name)
            nm = fn["name"]
            if not im.get("trait") and fn.get("exported") and len(used) == 1:
                (fld,) = used
                if nm.endswith("_len") and fld in lists:
                    m.setdefault(fld, nm[:-4])
                if nm.endswith("_cap") and fld in scalars:
                    m.setdefault(fld, nm[:-4] + "_size")
            if (im.get("trait") or "").endswith("cache_api::Cache") and nm == "cap" and len(used) == 1 and list(used)[0] in scalars:
                m.setdefault(list(used)[0], "size")
        rest = [x for x in scalars if x not in m]
        if name in REST_NAME and len(rest) == 1:
            m[rest[0]] = REST_NAME[name]
        m = {old: new for old, new in m.items() if old != new}
        if m:
            if len(set(m.values())) != len(m) or (set(m.values()) & (set(f["n"] for f in fields) - set(m))):
                raise AnalysisError("cannot derive canonical field names of %s: %s" % (name, m))
            renames[name] = m
    # builders: the field a public setter `set_<x>` stores its argument into is called <x> (or what the pinned tree calls it)
    for adt in doc["adts"]:
        name = adt["name"]
        if not name.endswith("Builder") or adt["kind"] != "Struct":
            continue
        fnames = [f["n"] for f in adt["variants"][0]["fields"]]
        m = {}
        for fn in doc["fns"]:
            im = impls.get(fn.get("parent"))
            if fn.get("kind") != "AssocFn" or not im or im.get("self_head") != name or im.get("trait") or not fn.get("name", "").startswith("set_") or fn["path"] not in bodies:
                continue
            tgt = _setter_target(bodies[fn["path"]], name)
            if len(tgt) == 1:
                x = fn["name"][4:]
                canon = BUILDER_CANON.get((name.split("::")[-1], x), x)
                (fld,) = tgt
                if fld != canon:
                    m[fld] = canon
        if m:
            if len(set(m.values())) != len(m) or (set(m.values()) & (set(fnames) - set(m))):
                raise AnalysisError("cannot derive canonical field names of %s: %s" % (name, m))
            renames[name] = m
    if not renames:
        return {}

    def rewrite(o):
        if isinstance(o, dict):
            if "of" in o and "n" in o and o["of"] in renames and o["n"] in renames[o["of"]]:
                o["n"] = renames[o["of"]][o["n"]]
            for v in o.values():
                rewrite(v)
        elif isinstance(o, list):
            for v in o:
                rewrite(v)
    rewrite(doc["bodies"])
    rewrite(doc.get("promoted", []))
    for adt in doc["adts"]:
        if adt["name"] in renames:
            for f in adt["variants"][0]["fields"]:
                f["n"] = renames[adt["name"]].get(f["n"], f["n"])
    # debug names of aggregates carry field names too
    for b in doc["bodies"]:
        for blk in b["blocks"]:
            for st in blk["s"]:
                r = st.get("r") or {}
                if r.get("k") == "agg" and r.get("adt") in renames and r.get("fields"):
                    r["fields"] = [renames[r["adt"]].get(x, x) for x in r["fields"]]
    return renames


_LOADED = {}


def load(cfg, repo=None):
    repo = repo or REPO
    k = (cfg, repo)
    if k in _LOADED:
        return _LOADED[k]
    t0 = time.time()
    path, fresh = generate(cfg, repo)
    with open(path) as fh:
        doc = json.load(fh)
    if doc.get("crate") != "caches":
        raise AnalysisError("fact file %s is not for crate caches" % path)
    renamed = canonical_field_names(doc)
    f = Facts(cfg, doc, repo)
    f.renamed_fields = renamed
    f.generated = fresh
    f.gen_s = time.time() - t0
    _LOADED[k] = f
    return f


def load_all(repo=None):
    return {cfg: load(cfg, repo) for cfg in CONFIGS}


if __name__ == "__main__":
    for cfg in CONFIGS:
        f = load(cfg)
        print(cfg, f.doc["n_bodies"], "bodies", "regenerated" if f.generated else "cached", "%.1fs" % f.gen_s)
