"""Obligation / violation bookkeeping, known-findings matching, evidence writer."""
import json
import os
import re
import time

from .facts import VERIF, AnalysisError

EVIDENCE_DIR = os.environ.get("VERIF_EVIDENCE", os.path.join(VERIF, "evidence"))   # the override is for selftest/pmatrix.py only
KNOWN = os.path.join(VERIF, "known_findings.json")


class Violation:
    def __init__(self, rule, key, msg, file=None, line=None, fn=None, witness=None, cfg=None):
        self.rule = rule
        self.key = key  # line-number free site key
        self.msg = msg
        self.file = file
        self.line = line
        self.fn = fn
        self.witness = witness or []
        self.cfg = cfg

    def to_json(self):
        return {"rule": self.rule, "key": self.key, "message": self.msg, "file": self.file, "line": self.line, "function": self.fn,
                "witness": self.witness, "cfg": self.cfg}


class Check:
    """collects what one property check did"""

    def __init__(self, pid, tier, seed=0):
        self.pid = pid
        self.tier = tier
        self.seed = seed
        self.t0 = time.time()
        self.obligations = []      # (rule, key, discharged_by)
        self.violations = {}       # key -> Violation
        self.undecided = []        # (rule, key, why)
        self.counts = {}
        self.samples = []
        self.rules = {}            # rule id -> one-line description
        self.controls = []         # positive controls fired
        self.analysed = {}
        self.assumptions = []
        self.notes = []

    def rule(self, rid, text):
        self.rules[rid] = text

    def ob(self, rule, key, how="ok", sample=None):
        self.obligations.append((rule, key, how))
        self.counts[rule] = self.counts.get(rule, 0) + 1
        if sample is not None and len([s for s in self.samples if s.get("rule") == rule]) < 3:
            self.samples.append({"rule": rule, "site": key, "discharged_by": how, "detail": sample})

    def violation(self, rule, key, msg, file=None, line=None, fn=None, witness=None, cfg=None):
        full = "%s|%s" % (rule, key)
        self.obligations.append((rule, key, None))
        self.counts[rule] = self.counts.get(rule, 0) + 1
        if full not in self.violations:
            self.violations[full] = Violation(rule, key, msg, file, line, fn, witness, cfg)

    def undecide(self, rule, key, why):
        self.undecided.append((rule, key, why))

    def count(self, name, n=1):
        self.counts[name] = self.counts.get(name, 0) + n

    def floor(self, rule, name, n, floor):
        """fail closed when fewer instances than were confirmed by hand are seen"""
        if n < floor:
            raise AnalysisError("%s: only %d %s found, floor is %d (anchor lost?)" % (rule, n, name, floor))

    def control(self, name, fired):
        self.controls.append((name, fired))
        if not fired:
            raise AnalysisError("positive control %s did not fire: the rule is blind" % name)


class Relabel:
    """reports the instances of another property's rule under a rule id of this property (the originating rule id stays in the site key).
    mapping: {originating rule id: rule id here}; instances of other rules are dropped; keep(key) filters by site key."""

    def __init__(self, chk, mapping, keep=None):
        self.chk, self.mapping, self.keep = chk, mapping, keep or (lambda key: True)
        self.analysed = chk.analysed
        self.violations = chk.violations
        self.notes = chk.notes

    def rule(self, *a):
        pass

    def ob(self, rule, key, how="ok", sample=None):
        if rule in self.mapping and self.keep(key):
            self.chk.ob(self.mapping[rule], "%s|%s" % (rule, key), how)

    def violation(self, rule, key, msg, *a, **k):
        if rule in self.mapping and self.keep(key):
            self.chk.violation(self.mapping[rule], "%s|%s" % (rule, key), msg, *a, **k)

    def undecide(self, rule, key, why):
        if rule in self.mapping:
            self.chk.undecide(self.mapping[rule], key, why)

    def floor(self, *a):
        self.chk.floor(*a)

    def count(self, *a, **k):
        pass

    def control(self, *a, **k):
        pass


def load_known():
    try:
        with open(KNOWN) as fh:
            d = json.load(fh)
    except OSError:
        return {}
    out = {}
    for k in d.get("known", []):
        out.setdefault(k["property"], {})[k["key"]] = k.get("what", "")
    return out


def finish(chk, level, explanation, trusted_base, checker_cmd, extra_cov=None):
    """write evidence + violation replay files, print VIOLATION / KNOWN-FINDING lines, return exit code"""
    os.makedirs(EVIDENCE_DIR, exist_ok=True)
    vdir = os.path.join(EVIDENCE_DIR, "violations")
    os.makedirs(vdir, exist_ok=True)
    for f in os.listdir(vdir):
        if f.startswith(chk.pid + "-"):
            os.remove(os.path.join(vdir, f))
    known = load_known().get(chk.pid, {})
    new, known_hit = [], []
    for full, v in sorted(chk.violations.items()):
        if full in known:
            known_hit.append((full, v))
        else:
            new.append((full, v))
    n_ob = len(chk.obligations)
    n_bad = len([o for o in chk.obligations if o[2] is None])
    distinct = len(set((o[0], o[1]) for o in chk.obligations))
    cov = {
        "explanation": explanation,
        "obligations": n_ob,
        "discharged": n_ob - n_bad,
        "checker_cmd": checker_cmd,
        "trusted_base": trusted_base,
        "evaluations": max(n_ob, 1),
        "distinct_nontrivial": distinct,
        "rule": "one evaluation = one rule instance (obligation) decided on /repo's current source; distinct = distinct (rule, site-key) pairs; "
                "site keys contain no line numbers",
        "samples": chk.samples[:10] or [{"note": "no obligations"}],
        "rules": chk.rules,
        "per_rule_instances": {k: v for k, v in sorted(chk.counts.items())},
        "analysed": chk.analysed,
        "undecided_sites": [{"rule": r, "site": k, "why": w} for r, k, w in chk.undecided],
        "positive_controls": [{"control": n, "fired": f} for n, f in chk.controls],
        "violations_detail": [v.to_json() for _, v in new][:50],
        "known_findings_matched": [full for full, _ in known_hit],
        "exhaustive": True,
    }
    if extra_cov:
        cov.update(extra_cov)
    ev = {
        "property_id": chk.pid,
        "tier": chk.tier,
        "seed": chk.seed,
        "level": level,
        "coverage": cov,
        "assumptions": chk.assumptions,
        "wall_s": round(time.time() - chk.t0, 2),
        "violations": len(new),
    }
    with open(os.path.join(EVIDENCE_DIR, "%s.json" % chk.pid), "w") as fh:
        json.dump(ev, fh, indent=1, default=str)
    for full, v in known_hit:
        print("KNOWN-FINDING: property=%s %s (%s)" % (chk.pid, known.get(full) or v.msg, full))
    for i, (full, v) in enumerate(new):
        path = os.path.join(vdir, "%s-%d.json" % (chk.pid, i))
        with open(path, "w") as fh:
            json.dump(dict(v.to_json(), property=chk.pid, full_key=full), fh, indent=1, default=str)
        where = "%s:%s" % (v.file, v.line) if v.file else ""
        print("%s %s in %s: %s" % (v.rule, where, v.fn or "?", v.msg))
        for w in v.witness[:12]:
            print("      via %s" % w)
        print("VIOLATION property=%s replay=%s" % (chk.pid, path))
    if chk.undecided:
        for r, k, w in chk.undecided[:20]:
            print("UNDECIDED %s %s: %s" % (r, k, w))
    if new:
        return 1
    if chk.undecided:
        return 2
    print("%s: held - %d obligations over %d distinct sites, %d rules, %.1fs (%s tier)" % (
        chk.pid, n_ob, distinct, len(chk.rules), time.time() - chk.t0, chk.tier))
    return 0
