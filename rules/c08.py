"""C08 - TwoQueueCache follows the 2Q policy: routing conformance + victim predicates + derived sizes."""
from .lib import api, ntrun, composite
from .lib.routing import View, cond_facts, norm_cmp, is_len_of, is_load_of, SELF
from .lib.absint import fmt_val, subterms
from .lib.facts import AnalysisError

LEVEL = "other"
EXPLANATION = (
    "Routing conformance of TwoQueueCache::{put, get, get_mut} on every path of the fully inlined MIR (both configurations), classified by "
    "the lookups made with the caller's key: hit-frequent only refreshes; hit-recent moves the node to frequent; a ghost hit revives the "
    "key's node into frequent after it left the ghost list; a miss allocates into recent. 'Full' must be the test recent.len()+frequent.len() "
    ">= size (resp. its negation < size). When full, exactly one resident entry is evicted: the preferred queue is recent iff recent.len() > "
    "recent_size on a ghost hit and iff recent.len() >= recent_size on a miss (the relation is read off the normalised branch fact), else "
    "frequent; the other queue is used only after the preferred one was found empty; the victim is the queue's LRU end and is linked+indexed "
    "into ghost; whatever ghost pushes out is freed (and reported: C12). R2: both constructors compute recent_size and the ghost capacity as "
    "floor(size as f64 * ratio) as usize and give recent and frequent the capacity size. Long-run behaviour over histories is not decided."
)
TRUSTED_BASE = ["as C03"]

ADT = api.CACHES["TwoQueueCache"]
REC, FRQ, GH = ("recent",), ("frequent",), ("ghost",)


def run(cx, chk):
    chk.rule("C08.R1", "routing: hit-frequent refresh / hit-recent promote / ghost hit revive into frequent / miss into recent")
    chk.rule("C08.R1v", "victim selection: full test, quota predicate (> on ghost hit, >= on miss), fallback only after an empty attempt, LRU end, victim ghosted")
    chk.rule("C08.R1f", "fallback: in both directions there is a path that takes the victim from the other queue after the preferred one was found empty")
    chk.rule("C08.R2", "derived sizes: recent_size and ghost capacity = floor(size as f64 * ratio) as usize; recent/frequent capacity = size")
    chk.rule("C08.R3", "non-use operations (peek*, contains, len, per-segment accessors, ...) reach no mutation: they neither promote nor refresh")
    chk.rule("C08.R4", "purge empties every retained list of the cache")
    chk.rule("C08.R5", "the quota and the ghost bound come from the configured ratios: TwoQueueCacheBuilder methods keep every field in place (none cross-wired, none reset), and no segment-named value is passed for another segment")
    for cfg, F in cx.cfgs():
        composite.builder_setters(cx, chk, cfg, F, "C08.R5", only=("TwoQueueCacheBuilder",))
        composite.role_wiring(cx, chk, cfg, F, "C08.R5")
        composite.policy_hygiene(cx, chk, cfg, F, "TwoQueueCache", "C08.R3", "C08.R4")
        for name in ("put", "get", "get_mut"):
            route(cx, chk, cfg, F, composite.cache_method(F, ADT, name), name)
        sizes(cx, chk, cfg, F)


def sum_fact(p):
    """(is_full, shape_ok) from the branch fact comparing recent.len()+frequent.len() with size"""
    for c, truth, e in cond_facts(p):
        if not (isinstance(c, tuple) and c[0] == "bin" and c[1] in ("Lt", "Ge", "Le", "Gt", "Eq", "Ne")):
            continue
        for s, b, op in ((c[2], c[3], c[1]), (c[3], c[2], {"Lt": "Gt", "Gt": "Lt", "Le": "Ge", "Ge": "Le"}.get(c[1], c[1]))):
            if isinstance(s, tuple) and s[0] == "bin" and s[1] == "Add" and is_load_of(("size",))(b):
                lens = {s[2], s[3]}
                want = {("len", ("H", SELF, REC + ("map",)), 0), ("len", ("H", SELF, FRQ + ("map",)), 0)}
                norm = set(("len", l[1], 0) for l in lens if isinstance(l, tuple) and l[0] == "len")
                if norm != want:
                    return (None, "the fullness test sums %s instead of recent.len() + frequent.len()" % [fmt_val(x) for x in lens])
                if op not in ("Ge", "Lt"):
                    return (None, "the fullness test uses `%s` between the resident sum and size (must be >= / <)" % op)
                full = (op == "Ge") == truth
                return (full, None)
    return (None, None)


def route(cx, chk, cfg, F, f, name):
    counts = {}
    ok = True

    def bad(rule, what, msg, ln=None):
        nonlocal ok
        ok = False
        chk.violation(rule, "%s|%s" % (f["q"], what), "%s: %s" % (f["q"], msg), f["span"]["file"], ln or f["span"]["lo"], f["q"], None, cfg)
    for f_, p, w in ntrun.walk(cx, cfg, only=lambda g: g["path"] == f["path"]):
        v = View(p, w)
        structural = v.of("index", "unindex", "attach", "detach", "rebox", "alloc")
        if FRQ in v.key_hits:
            cls = "hit-frequent"
            n = v.key_hits[FRQ]
            if not v.refreshed(n, FRQ):
                bad("C08.R1", "frequent-no-refresh", "a hit on a frequent entry does not move it to the most-recent end of frequent")
            others = [x for x in structural if not (x[3] == n and x[2] == FRQ and x[1] in ("attach", "detach"))]
            if others:
                bad("C08.R1", "frequent-extra", "a frequent hit also performs %s" % sorted(set("%s %s" % (x[1], x[2]) for x in others)))
        elif REC in v.key_hits:
            cls = "hit-recent"
            n = v.key_hits[REC]
            if v.final(n)[:2] != (FRQ, FRQ):
                bad("C08.R1", "recent-not-promoted", "a second access to a recent entry leaves it in %s instead of the frequent queue" % (v.final(n)[:2],))
            others = [x for x in structural if x[3] != n]
            if others:
                bad("C08.R1", "recent-extra", "promoting a recent entry also performs %s" % sorted(set("%s %s" % (x[1], x[2]) for x in others)))
        elif GH in v.key_hits and name == "put":
            cls = "ghost-hit"
            n = v.key_hits[GH]
            full, err = sum_fact(p)
            if err:
                bad("C08.R1v", "full-test", err)
            if v.final(n)[:2] != (FRQ, FRQ):
                # the key's node may come back as ghost's own evictee (pruning rule P2): then the revived node is that evictee
                revived = [x[3] for x in v.of("index", lst=FRQ)]
                if not revived or any(v.final(m)[:2] != (FRQ, FRQ) for m in revived):
                    bad("C08.R1", "ghost-not-revived", "a put on a ghost key does not revive it into the frequent queue (%s)" % (v.final(n)[:2],))
            if v.of("alloc"):
                bad("C08.R1", "ghost-alloc", "a ghost hit allocates a new node instead of reviving the ghost's")
            victims(v, p, bad, full, "Gt", "ghost hit", exclude={n})
        else:
            cls = "miss"
            if name != "put":
                if structural:
                    bad("C08.R1", "get-miss-events", "a miss in %s performs %s" % (name, sorted(set(x[1] for x in structural))))
                counts[cls] = counts.get(cls, 0) + 1
                continue
            full, err = sum_fact(p)
            if err:
                bad("C08.R1v", "full-test", err)
            fresh = [x[3] for x in v.of("alloc")]
            if len(fresh) != 1 or v.final(fresh[0])[:2] != (REC, REC):
                bad("C08.R1", "miss-home", "a brand-new key ends in %s instead of the recent queue" % [v.final(x)[:2] for x in fresh])
            victims(v, p, bad, full, "Ge", "miss", exclude=set(fresh))
        counts[cls] = counts.get(cls, 0) + 1
    need = {"put": ("hit-frequent", "hit-recent", "ghost-hit", "miss"), "get": ("hit-frequent", "hit-recent", "miss"), "get_mut": ("hit-frequent", "hit-recent", "miss")}[name]
    for k in need:
        if ok and counts.get(k, 0) < 1:
            raise AnalysisError("C08: no %s path in %s (%s)" % (k, f["q"], cfg))
    if name == "put":
        dirs = set((a, b) for (r, a, b) in FALLBACKS)
        for a, b in ((REC, FRQ), (FRQ, REC)):
            if (a, b) not in dirs:
                bad("C08.R1v", "no-fallback-%s-%s" % (a[0], b[0]), "when the cache is full and the %s queue (the one the predicate selects) is empty there is no path that takes the victim from the %s queue instead: put cannot make room (it panics or over-fills)" % (a[0], b[0]))
        FALLBACKS.clear()
    if ok:
        chk.ob("C08.R1", "%s:%s" % (cfg, f["q"]), "routing + victim selection conform on %s" % counts, {"fn": f["q"], "classes": counts})


FALLBACKS = set()


def p_root(p):
    return p.events[0]["fn"] if p.events else None


def victims(v, p, bad, full, quota_rel, what, exclude):
    res_un = [x for x in v.of("unindex") if x[2] in (REC, FRQ) and x[3] not in exclude]
    if full is None:
        bad("C08.R1v", what + "-no-full-test", "no fullness test (recent.len() + frequent.len() vs size) on a %s path" % what)
        return
    if not full:
        if res_un:
            bad("C08.R1v", what + "-evict-not-full", "a resident entry is evicted although the cache is not full", p.events[res_un[0][0]].get("ln"))
        return
    if len(res_un) != 1:
        bad("C08.R1v", what + "-victim-count", "%d resident entries are evicted on a full-cache %s (must be exactly one)" % (len(res_un), what))
        return
    i, _, lst, m, raw = res_un[0]
    # quota predicate
    q = None
    for c, truth, e in cond_facts(p):
        r = norm_cmp(c, truth, is_len_of(REC))
        if r and is_load_of(("recent_size",))(r[2]):
            q = r
    if q is None:
        bad("C08.R1v", what + "-no-quota", "the victim queue is chosen without comparing recent.len() with the recent quota")
        return
    rel = q[0]
    allowed = {"Gt": ("Gt", "Le"), "Ge": ("Ge", "Lt")}[quota_rel]
    if rel not in allowed:
        bad("C08.R1v", what + "-quota-relation", "on a %s the recent queue must supply the victim iff recent.len() %s recent_size; the code tests `%s`"
            % (what, ">" if quota_rel == "Gt" else ">=", {"Gt": ">", "Ge": ">=", "Lt": "<", "Le": "<="}[rel]), p.events[i].get("ln"))
        return
    preferred = REC if rel == quota_rel else FRQ
    if lst != preferred:
        tried = [l for (j, l) in v.empty_attempts() if j < i]
        if preferred in tried:
            FALLBACKS.add((p_root(p), preferred, lst))
        if preferred not in tried:
            bad("C08.R1v", what + "-wrong-queue", "the victim is taken from %s although the predicate selects %s and that queue was not found empty" % (lst[0], preferred[0]),
                p.events[i].get("ln"))
    src = v.victim_source(m)
    if src is None or src != ("tail", "prev", lst):
        bad("C08.R1v", what + "-victim-end", "the victim is not the least-recent entry of %s (%s)" % (lst[0], src), p.events[i].get("ln"))
    if v.final(m)[:2] != (GH, GH):
        bad("C08.R1v", what + "-not-ghosted", "the evicted resident entry ends in %s instead of the ghost list" % (v.final(m)[:2],), p.events[i].get("ln"))
    # ghost overflow: its own victim is freed
    for x in v.of("unindex", lst=GH):
        g = x[3]
        if g in exclude or g == m:
            continue
        if v.final(g)[2] not in ("boxed", "freed") and v.final(g)[:2] != (FRQ, FRQ):
            bad("C08.R1v", what + "-ghost-overflow", "the entry pushed out of the ghost list is neither freed nor revived (%s)" % (v.final(g),), p.events[x[0]].get("ln"))


def sizes(cx, chk, cfg, F):
    RAW = api.CACHES["RawLRU"]
    n = 0
    for f in F.doc["fns"]:
        if f["kind"] != "AssocFn" or ADT not in str(f.get("output")) or F.body(f["path"]) is None:
            continue
        im = F.impl_of(f)
        if not f.get("exported"):
            continue
        for p in cx.paths(cfg, f["path"]):
            aggs = [t for t in subterms(p.ret) if t[0] == "agg" and t[1] == "adt" and t[2][0] == ADT]
            if not aggs:
                continue
            n += 1
            vals = dict(zip(aggs[0][4], aggs[0][3]))
            size = vals["size"]
            caps = {k: dict(zip(x[4], x[3]))["cap"] for k, x in vals.items() if isinstance(x, tuple) and x[0] == "agg" and x[2][0] == RAW}
            errs = []
            for fld in ("recent", "frequent"):
                if caps.get(fld) != size:
                    errs.append("%s is built with capacity %s instead of size" % (fld, fmt_val(caps.get(fld))))
            r1 = floor_of(p, vals["recent_size"], size)
            r2 = floor_of(p, caps.get("ghost"), size)
            if r1 is None:
                errs.append("recent_size is %s, not floor(size as f64 * ratio) as usize" % fmt_val(vals["recent_size"])[:80])
            if r2 is None:
                errs.append("the ghost capacity is %s, not floor(size as f64 * ratio) as usize" % fmt_val(caps.get("ghost"))[:80])
            if r1 is not None and r2 is not None and r1 == r2 and not (isinstance(r1, tuple) and r1[0] == "const"):
                errs.append("recent_size and the ghost capacity are computed from the same ratio %s" % fmt_val(r1))
            # which ratio is which: validated against the matching error variant
            for ratio, variant in ((r1, "InvalidRecentRatio"), (r2, "InvalidGhostRatio")):
                if ratio is not None and not (isinstance(ratio, tuple) and ratio[0] == "const"):
                    pass
            key = "%s|sizes" % f["q"]
            if errs:
                chk.violation("C08.R2", key, "%s: %s" % (f["q"], "; ".join(errs)), f["span"]["file"], f["span"]["lo"], f["q"], None, cfg)
            else:
                chk.ob("C08.R2", "%s:%s" % (cfg, key), "recent_size = floor(size*%s), ghost cap = floor(size*%s), recent/frequent cap = size" % (fmt_val(r1)[:30], fmt_val(r2)[:30]))
    chk.floor("C08.R2", "constructor paths in %s" % cfg, n, 2)


def floor_of(p, term, size):
    """ratio r if term == cast(floor(cast(size) * r))"""
    if not (isinstance(term, tuple) and term[0] == "cast" and term[1] == "FloatToInt"):
        return None
    fl = term[3]
    if not (isinstance(fl, tuple) and fl[0] == "call" and fl[2].split("::")[-1] == "floor"):
        return None
    ev = [e for e in p.events if e["ev"] == "call" and e.get("id") == fl[1]]
    if not ev:
        return None
    a = ev[0]["args"][0]
    if not (isinstance(a, tuple) and a[0] == "bin" and a[1] == "Mul"):
        return None
    x, y = a[2], a[3]
    for s, r in ((x, y), (y, x)):
        if isinstance(s, tuple) and s[0] == "cast" and s[1] == "IntToFloat" and s[3] == size:
            return r
    return None
