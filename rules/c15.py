"""C15 - eviction callback fires exactly once per departing entry, never otherwise."""
from .lib import api, ntrun, composite
from .lib.absint import fmt_val, fmt_loc, root_of, subterms
from .lib.nt import payload_field, fmt_list
from .lib.facts import AnalysisError

LEVEL = "other"
EXPLANATION = (
    "Path counting on the fully inlined MIR of every exported RawLRU method (both configurations), on the paths where the stored callback is present: a departure is a node re-boxed with its "
    "pair moved out, or a node recycled in place (key overwritten). On every such path the number of OnEvictCallback::on_evict calls "
    "equals the number of departures, each invocation comes after its departure, its "
    "arguments are references to that departing node's key and value (provenance), and when the callback runs every tracked node is in a "
    "consistent state (the departing one fully out of list and index, every other one linked and indexed, no raw node in flight), so that "
    "a panicking callback cannot leave an entry resident after its callback fired. on_evict has no writer except the constructor, both "
    "callback constructors store Some(cb), and the callback-free helpers are applied only to DefaultEvictCallback receivers."
)
TRUSTED_BASE = ["as C03", "Drop::drop of the cache is not a departure through the API (the property lists eviction, remove, remove_lru, purge, resize)"]

RAW = api.CACHES["RawLRU"]
from .lib import absint
READER = absint.Interp(None)


def run(cx, chk):
    chk.rule("C15.R1", "on every path #callback invocations == #departures, each after its departure; none on update/read paths")
    chk.rule("C15.R2", "callback arguments are references to the departing node's key and value, in that order; cb forwards them unchanged")
    chk.rule("C15.R3", "put_nonnull / put_or_evict_nonnull (no callback by design) only on receivers whose E is DefaultEvictCallback; not exported")
    chk.rule("C15.R4", "on_evict is written only by the constructor; both callback constructors pass Some(cb); clone copies it")
    chk.rule("C15.R6", "callbacks are never invoked from inside an iteration over the hash index (they fire in recency order)")
    chk.rule("C15.R5", "when the callback runs the cache is consistent: departing node unlinked+unindexed, every other node linked+indexed, none in flight")
    chk.rule("C15.R7", "a clone reports its departures to a clone of the original's callback: on every path of RawLRU::clone the new cache's on_evict derives from self.on_evict (engine of C16.R2)")
    from . import c16
    from .lib.report import Relabel
    for cfg, F in cx.cfgs():
        fcl = [F.fns[i] for im in F.doc["impls"] if (im["trait"] or "").endswith("clone::Clone") and im["self_head"] == RAW for i in im["items"] if i in F.fns and F.fns[i]["name"] == "clone"]
        if len(fcl) != 1:
            raise AnalysisError("C15.R7: RawLRU::clone not found in %s" % cfg)
        c16.rawlru_clone(cx, Relabel(chk, {"C16.R2": "C15.R7"}, keep=lambda key: "|on_evict" in key or key.endswith("clone")), cfg, F, fcl[0])
    for cfg, F in cx.cfgs():
        r1(cx, chk, cfg, F)
        r3(cx, chk, cfg, F)
        r4(cx, chk, cfg, F)


def is_raw_method(F, f):
    im = F.impl_of(f)
    return bool(im) and im["self_head"] == RAW


def r1(cx, chk, cfg, F):
    nroots = 0
    for f in api.roots(F):
        if not is_raw_method(F, f) or ntrun.is_teardown(f):
            continue
        nroots += 1
        bad = False
        npaths = 0
        ncb = 0
        for f_, p, w in ntrun.walk(cx, cfg, only=lambda g: g["path"] == f["path"]):
            npaths += 1
            # departures of *entries* only (the cap-0 hand-back is a departure of the incoming pair: counted by its own cb below)
            deps = [d for d in w.departures if w.nodes.get(d[1]) is None or w.nodes[d[1]].kind != "sentinel"]
            # a cache BUILT on this path with `on_evict: None` (from_iter / From conversions call `new`) has no callback to notify:
            # its departures do not count (the branch on on_evict is decided from the constructed value, so cb_absent is not set)
            home = {}
            for ev_ in w.events_on:
                if ev_[1] in ("unindex", "detach") and ev_[2] is not None:
                    home.setdefault(ev_[3], ev_[2])
            deps = [d for d in deps if not built_without_callback(p, home.get(d[1]))]
            cbs = w.cb_sites
            ncb += len(cbs)
            if w.cb_absent:
                continue   # no callback configured on this path (on_evict was inspected and is None): nothing to count
            handback = handback_cbs(p, w, cbs)
            # the capacity-0 hand-back returns the incoming pair as Evicted: it must be reported to the callback exactly once
            var_ = p.ret[2][1] if isinstance(p.ret, tuple) and p.ret[0] == "agg" and p.ret[1] == "adt" and p.ret[2] else None
            hb_path = (not deps) and var_ == "Evicted" and dict(zip(p.ret[4], p.ret[3])).get("key") == ("param", 2, False)
            if hb_path and len(handback) != 1:
                bad = True
                chk.violation("C15.R1", "%s|handback-no-cb" % f["q"], "%s hands the incoming pair back as Evicted (capacity 0) with %d callback invocations for it (must be exactly one)" % (f["q"], len(handback)),
                              f["span"]["file"], f["span"]["lo"], f["q"], None, cfg)
            hash_iter = [e for e in p.events if (e["ev"] == "loop" and any(x in (e.get("iter_ty") or "") for x in ("hash_map::", "hash::map::", "hashbrown::")))
                         or (e["ev"] == "call" and (e.get("q") or "").split("::")[-1] in ("drain", "iter", "iter_mut", "values", "values_mut", "keys", "into_iter", "retain")
                             and "HashMap" in (e.get("q") or "") + str((e.get("f") or {}).get("self_ty", "")))]
            if cbs and hash_iter:
                bad = True
                chk.violation("C15.R6", "%s|hash-order" % f["q"], "%s invokes the eviction callback while iterating the hash index: the callbacks fire in hash order, not in the order the entries leave the recency list" % f["q"],
                              f["span"]["file"], hash_iter[0].get("ln"), f["q"], None, cfg)
            if len(cbs) - len(handback) != len(deps):
                bad = True
                e = (cbs[0][1] if cbs else (p.events[deps[0][0]] if deps else {"ln": f["span"]["lo"], "fn": f["path"]}))
                g = F.fns.get(e.get("fn")) or f
                chk.violation("C15.R1", "%s|count|%d-vs-%d" % (f["q"], len(cbs) - len(handback), len(deps)),
                              "a path of %s has %d departing entr%s but %d callback invocation%s" % (f["q"], len(deps), "y" if len(deps) == 1 else "ies",
                                                                                                   len(cbs) - len(handback), "" if len(cbs) - len(handback) == 1 else "s"),
                              g["span"]["file"], e.get("ln"), g["q"], ["root " + f["q"]], cfg)
                continue
            used = set()
            for (ci, ce) in cbs:
                if (ci, ce) in handback:
                    continue
                # the departure this callback reports: the node whose key/val the arguments point at
                kn = arg_node(p, ce["args"][1], "key", w)
                vn = arg_node(p, ce["args"][2], "val", w)
                if kn is None or vn is None or kn != vn:
                    bad = True
                    chk.violation("C15.R2", "%s|args" % f["q"], "callback arguments (%s, %s) are not the key and value of one departing node" % (
                        fmt_val(ce["args"][1]), fmt_val(ce["args"][2])), F.fns[ce["fn"]]["span"]["file"], ce.get("ln"), F.fns[ce["fn"]]["q"], ["root " + f["q"]], cfg)
                    continue
                dep = [d for d in deps if d[1] == kn]
                if not dep:
                    bad = True
                    chk.violation("C15.R2", "%s|not-departing" % f["q"], "callback invoked with the pair of node %s which does not leave the cache on this path" % fmt_val(kn),
                                  F.fns[ce["fn"]]["span"]["file"], ce.get("ln"), F.fns[ce["fn"]]["q"], ["root " + f["q"]], cfg)
                    continue
                if dep[0][0] > ci:
                    bad = True
                    chk.violation("C15.R1", "%s|before-departure" % f["q"], "callback for node %s runs before the node has left the cache" % fmt_val(kn),
                                  F.fns[ce["fn"]]["span"]["file"], ce.get("ln"), F.fns[ce["fn"]]["q"], ["root " + f["q"]], cfg)
                if kn in used:
                    bad = True
                    chk.violation("C15.R1", "%s|twice" % f["q"], "callback invoked twice for node %s" % fmt_val(kn),
                                  F.fns[ce["fn"]]["span"]["file"], ce.get("ln"), F.fns[ce["fn"]]["q"], ["root " + f["q"]], cfg)
                used.add(kn)
            # R5 consistency at callback time
            for (i, e, kind, snap) in w.snapshots:
                if kind != "cb":
                    continue
                for n, st in snap.items():
                    if st.kind in ("unknown", "sentinel"):
                        continue
                    L, I = isinstance(st.link, tuple), isinstance(st.index, tuple)
                    ok = (L and I and st.own == "raw") or (not L and not I and st.own in ("boxed", "freed")) or (st.own == "boxed" and n[0] == "alloc")
                    recycled = any(d[1] == n and d[2] == "recycled" for d in w.departures)
                    if recycled:
                        ok = L and I
                    if not ok:
                        bad = True
                        g = F.fns.get(e.get("fn")) or f
                        chk.violation("C15.R5", "%s|%s" % (f["q"], st.src.split("#")[0]),
                                      "the eviction callback runs while node %s is in an intermediate state (%s; %s): a panicking callback leaves the cache inconsistent / an entry resident after its callback fired"
                                      % (fmt_val(n), st.short(), "; ".join(st.hist[-4:])), g["span"]["file"], e.get("ln"), g["q"], ["root " + f["q"]], cfg)
        if not bad:
            chk.ob("C15.R1", "%s:%s" % (cfg, f["q"]), "cb count == departures on %d paths (%d callback sites visited)" % (npaths, ncb),
                   {"root": f["q"], "paths": npaths, "callback_site_visits": ncb})
    chk.floor("C15.R1", "RawLRU roots in %s" % cfg, nroots, 50)


def built_without_callback(p, X):
    if X is None or X[0] not in ("L", "T") or p.st is None:
        return False
    loc = (X[0], X[1], X[2], tuple(X[3]) + ("on_evict",)) if X[0] == "L" else (X[0], X[1], tuple(X[2]) + ("on_evict",))
    v = absint.Interp(None).read(p.st, loc)
    return isinstance(v, tuple) and v[0] == "agg" and v[1] == "adt" and v[2][1] == "None"


def handback_cbs(p, w, cbs):
    """callback invocations whose arguments are the caller's own incoming (k, v) locals and whose calling frame returns exactly that
    pair as PutResult::Evicted: a cache resized to capacity 0 hands the pair straight back - a departure of the incoming pair, not of a node"""
    out = []
    for (ci, ce) in cbs:
        a1, a2 = ce["args"][1], ce["args"][2]
        if not (isinstance(a1, tuple) and a1[0] == "ref" and a1[1][0] == "L" and isinstance(a2, tuple) and a2[0] == "ref" and a2[1][0] == "L"):
            continue
        if arg_node(p, a1, "key", w) is not None or arg_node(p, a2, "val", w) is not None:
            continue
        fid = a1[1][1]      # the frame that owns the locals handed to the callback
        if a2[1][1] != fid:
            continue
        rv = p.ret if fid == 0 else None
        if rv is None:
            for e in p.events[ci:]:
                if e["ev"] == "exit" and e.get("callee_fid") == fid:
                    rv = e["ret"]
                    break
        if isinstance(rv, tuple) and rv[0] == "agg" and rv[1] == "adt" and rv[2][1] == "Evicted":
            kv = (p.st.store.get(a1[1]), p.st.store.get(a2[1]))
            if tuple(rv[3]) == kv:
                out.append((ci, ce))
    return out


def arg_node(p, a, fld, w):
    """node whose `fld` the reference a points at (directly in the node, in a moved-out local copy, or a moved-out value)"""
    if not (isinstance(a, tuple) and a[0] == "ref"):
        return None
    loc = a[1]
    if loc[0] == "H" and loc[2] == (fld,):
        return loc[1]
    v = READER.read(p.st, loc) if p.st is not None else None
    if isinstance(v, tuple) and v[0] == "moved":
        v = v[1]
    pf = payload_field(v)
    if pf and pf[1] == fld:
        return pf[0]
    # old payload moved out of a recycled node by mem::replace
    for ev in w.events_on:
        if ev[1] == "recycle-" + fld and ev[4] == v:
            return ev[3]
    return None


def r3(cx, chk, cfg, F):
    """callback-free node helpers (put_nonnull / put_or_evict_nonnull and any non-exported RawLRU method that reaches one of them on its own
    receiver): the obligation `E = DefaultEvictCallback` sits at the call sites that enter this family from outside it"""
    n = 0
    H = {"put_nonnull", "put_or_evict_nonnull"}
    sites = []
    for b in F.doc["bodies"]:
        fn = F.fns[b["path"]]
        for blk in b["blocks"]:
            t = blk["t"]
            if t["k"] != "call" or "q" not in t["f"]:
                continue
            q = (t["f"].get("resolved") or t["f"])["q"]
            if q.startswith(RAW):
                sites.append((fn, t, q.split("::")[-1]))
    grew = True
    while grew:
        grew = False
        for fn, t, name in sites:
            owner = fn
            while owner.get("kind") == "Closure":
                owner = F.fns[owner["parent"]]
            im = F.impl_of(owner)
            if name in H and owner["name"] not in H and im and im["self_head"] == api.CACHES["RawLRU"] and not im["trait"] and not owner.get("exported") \
                    and "DefaultEvictCallback" not in t["f"].get("self_ty", ""):
                H.add(owner["name"])      # a private RawLRU helper that itself evicts without the callback
                grew = True
    for fn, t, name in sites:
        if name not in H:
            continue
        owner = fn
        while owner.get("kind") == "Closure":
            owner = F.fns[owner["parent"]]
        n += 1
        st = t["f"].get("self_ty", "")
        if "DefaultEvictCallback" in st:
            chk.ob("C15.R3", "%s:%s|%s|%s" % (cfg, fn["q"], name, t["ln"]), "receiver E = DefaultEvictCallback")
        elif owner["name"] in H and (F.impl_of(owner) or {}).get("self_head") == api.CACHES["RawLRU"]:
            chk.ob("C15.R3", "%s:%s|%s|%s" % (cfg, fn["q"], name, t["ln"]), "inside the callback-free helper family (obligation at the callers of %s)" % owner["name"])
        else:
            chk.violation("C15.R3", "%s|%s" % (fn["q"], name), "%s (evicts without invoking the callback) is applied to a receiver of type %s" % (name, st),
                          fn["span"]["file"], t["ln"], fn["q"], None, cfg)
    for name in sorted(H):
        for f in F.doc["fns"]:
            if f.get("name") == name and f.get("exported") and (F.impl_of(f) or {}).get("self_head") == api.CACHES["RawLRU"]:
                chk.violation("C15.R3", "exported|" + name, "%s is reachable from outside the crate" % name, f["span"]["file"], f["span"]["lo"], f["q"], None, cfg)
    chk.floor("C15.R3", "call sites of the callback-free helpers in %s" % cfg, n, 15)


def r4(cx, chk, cfg, F):
    writers = 0
    for b in F.doc["bodies"]:
        fn = F.fns[b["path"]]
        for blk in b["blocks"]:
            for s in blk["s"]:
                if s["k"] != "assign":
                    continue
                pr = [e for e in s["p"]["p"] if isinstance(e, dict) and "f" in e]
                if pr and any(e["n"] == "on_evict" and e["of"] == RAW for e in pr):
                    writers += 1
                    chk.violation("C15.R4", "write|" + fn["q"], "on_evict is assigned outside the constructor", fn["span"]["file"], s["ln"], fn["q"], None, cfg)
            t = blk["t"]
            if t["k"] == "call":
                for a, ty in zip(t["args"], t["arg_tys"]):
                    if ty.startswith("&mut core::option::Option<E>") and a["k"] in ("move", "copy"):
                        chk.violation("C15.R4", "mutborrow|" + fn["q"], "&mut self.on_evict handed to %s: the stored callback may be taken or replaced" % t["f"].get("q"),
                                      fn["span"]["file"], t["ln"], fn["q"], None, cfg)
    for name in ("with_on_evict_cb", "with_on_evict_cb_and_hasher"):
        f = F.find("lru::raw::RawLRU::" + name)
        ok = False
        for p in cx.paths(cfg, f["path"]):
            for t in subterms(p.ret):
                if t[0] == "agg" and t[1] == "adt" and t[2][0] == RAW:
                    cbv = dict(zip(t[4], t[3])).get("on_evict")
                    ok = isinstance(cbv, tuple) and cbv[0] == "agg" and cbv[2][1] == "Some" and cbv[3][0] == ("param", 2, False)
        if ok:
            chk.ob("C15.R4", "%s:%s" % (cfg, name), "stores Some(cb) with cb = the caller's callback")
        else:
            chk.violation("C15.R4", name, "%s does not store Some(<the caller's callback>) in on_evict" % name, f["span"]["file"], f["span"]["lo"], f["q"], None, cfg)
