"""C07 - SegmentedCache follows the segmented-LRU policy: routing conformance."""
from .lib import api, ntrun, composite
from .lib.routing import View, lname
from .lib.absint import fmt_val
from .lib.facts import AnalysisError

LEVEL = "other"
EXPLANATION = (
    "Routing conformance. Every acyclic path of the fully inlined MIR of SegmentedCache::{put, get, get_mut, put_protected} (both "
    "configurations) is classified by the outcome of the lookups made with the caller's key (hit-protected / hit-probationary / miss) and "
    "must show exactly the admissible list events: a protected hit only refreshes the hit node (detach then attach in protected, nothing on "
    "probationary); a probationary hit takes the node out of probationary and links+indexes it in protected, and whatever protected pushes "
    "out is linked+indexed back into probationary and never freed; a miss on put inserts the fresh node into probationary and touches "
    "protected not at all, its only possible victim being probationary's LRU end; a miss on get changes nothing; put_protected leaves the key "
    "in protected only. Events are (list identity, primitive, node) triples from the node-typestate walker, not text. Behaviour over "
    "histories (what the segments contain after a sequence) is not decided."
)
TRUSTED_BASE = ["as C03", "attach inserts at the most-recent end (C03.R4/C06.R2)"]

ADT = api.CACHES["SegmentedCache"]
PROT, PROB = ("protected",), ("probationary",)


def run(cx, chk):
    chk.rule("C07.R1", "hit-protected: only a refresh of the hit node in protected; no event on probationary")
    chk.rule("C07.R2", "hit-probationary: node moves probationary -> protected; protected's overflow is demoted into probationary, never freed")
    chk.rule("C07.R3", "miss: put inserts the fresh node into probationary only (victim = probationary LRU end); get/get_mut change nothing")
    chk.rule("C07.R4", "put_protected: the key ends in protected and nowhere else")
    chk.rule("C07.R5", "non-use operations (peek*, contains, len, per-segment accessors, ...) reach no mutation: they neither promote nor refresh")
    chk.rule("C07.R6", "purge empties every retained list of the cache")
    chk.rule("C07.R8", "per-segment operations (`*_from_probationary`, `*_from_protected`, `probationary_*`, `protected_*`) look at and change only the segment they name")
    chk.rule("C07.R7", "the segment bounds the policy runs on are the configured ones: SegmentedCacheBuilder methods never cross-wire fields, and a clone keeps each bound in its own field")
    for cfg, F in cx.cfgs():
        composite.builder_setters(cx, chk, cfg, F, "C07.R7", only=("SegmentedCacheBuilder",))
        composite.role_wiring(cx, chk, cfg, F, "C07.R7")
        composite.clone_bounds(cx, chk, cfg, F, "C07.R7", only=("SegmentedCache",))
        per_segment(cx, chk, cfg, F)
        composite.policy_hygiene(cx, chk, cfg, F, "SegmentedCache", "C07.R5", "C07.R6")
        for name, trait in (("put", api.CACHE_TRAIT), ("get", api.CACHE_TRAIT), ("get_mut", api.CACHE_TRAIT), ("put_protected", None)):
            f = composite.cache_method(F, ADT, name, trait)
            route(cx, chk, cfg, F, f, name)


def route(cx, chk, cfg, F, f, name):
    counts = {"hit-protected": 0, "hit-probationary": 0, "miss": 0}
    ok = True

    def bad(rule, what, msg, ln=None):
        nonlocal ok
        ok = False
        chk.violation(rule, "%s|%s" % (f["q"], what), "%s: %s" % (f["q"], msg), f["span"]["file"], ln or f["span"]["lo"], f["q"], None, cfg)
    for f_, p, w in ntrun.walk(cx, cfg, only=lambda g: g["path"] == f["path"]):
        v = View(p, w)
        structural = v.of("index", "unindex", "attach", "detach", "rebox", "alloc")
        if name == "put_protected" and PROB not in v.key_hits and PROB not in v.key_miss and PROT not in v.key_hits:
            bad("C07.R4", "probationary-not-consulted", "put_protected places the key in protected without looking it up in / removing it from probationary: the key can be in both segments")
            counts["hit-probationary"] += 1   # reported above; do not fail closed on the missing class
        if PROT in v.key_hits and name != "put_protected":
            counts["hit-protected"] += 1
            n = v.key_hits[PROT]
            if not v.refreshed(n, PROT):
                bad("C07.R1", "no-refresh", "a hit on a protected entry does not move it to the most-recent end of protected (no detach+attach of the hit node)")
            others = [x for x in structural if not (x[3] == n and x[2] == PROT and x[1] in ("attach", "detach"))]
            if others:
                bad("C07.R1", "extra-events", "a protected hit also performs %s" % sorted(set("%s on %s" % (x[1], ".".join(x[2] or ("?",))) for x in others)),
                    p.events[others[0][0]].get("ln"))
        elif PROB in v.key_hits or (name == "put_protected" and PROT in v.key_hits):
            if PROT in v.key_hits and name == "put_protected":
                # key already protected: RawLRU::put updates it in place
                counts["hit-protected"] += 1
                n = v.key_hits[PROT]
                if not v.refreshed(n, PROT) or v.of("index", "unindex", "rebox"):
                    bad("C07.R4", "protected-hit", "put_protected on a protected key must only update it in place")
                continue
            counts["hit-probationary"] += 1
            n = v.key_hits[PROB]
            link, index, own = v.final(n)
            if (link, index) != (PROT, PROT):
                bad("C07.R2", "not-promoted", "a hit on a probationary entry leaves the node in %s/%s instead of linked+indexed in protected" % (link, index))
            if v.of("rebox"):
                bad("C07.R2", "freed", "an entry is freed while promoting a probationary entry (protected's overflow must be demoted, never evicted)",
                    p.events[v.of("rebox")[0][0]].get("ln"))
            for x in v.of("unindex", lst=PROT):
                m = x[3]
                if m == n:
                    continue
                ml, mi, mo = v.final(m)
                src = v.victim_source(m)
                if (ml, mi) != (PROB, PROB):
                    bad("C07.R2", "demoted-lost", "the entry pushed out of protected ends in %s/%s instead of the probationary segment" % (ml, mi), p.events[x[0]].get("ln"))
                if src is None or src[:2] != ("tail", "prev") or src[2] != PROT:
                    bad("C07.R2", "demoted-wrong-end", "the entry demoted from protected is not its least-recent one (%s)" % (src,), p.events[x[0]].get("ln"))
            if v.of("alloc"):
                bad("C07.R2", "alloc", "a new node is allocated on a probationary hit")
        else:
            counts["miss"] += 1
            if name in ("get", "get_mut"):
                if structural:
                    bad("C07.R3", "get-miss-events", "a miss in %s performs %s" % (name, sorted(set(x[1] for x in structural))))
                continue
            target = PROT if name == "put_protected" else PROB
            other = PROB if name == "put_protected" else PROT
            fresh = [x[3] for x in v.of("alloc")]
            recycled = [x[3] for x in v.of("recycle-key")]
            homes = [v.final(n)[:2] for n in fresh + recycled]
            if not homes or any(h != (target, target) for h in homes):
                bad("C07.R3" if name == "put" else "C07.R4", "new-key-home", "a new key ends in %s instead of the %s segment" % (homes, ".".join(target)))
            touched_other = [x for x in v.of("index", "unindex", "attach", "detach") if x[2] == other]
            if touched_other:
                bad("C07.R3" if name == "put" else "C07.R4", "other-segment", "inserting a new key also performs %s on %s" % (
                    sorted(set(x[1] for x in touched_other)), ".".join(other)), p.events[touched_other[0][0]].get("ln"))
            for n in recycled:
                src = v.victim_source(n)
                if src is None or src != ("tail", "prev", target):
                    bad("C07.R3", "victim", "the entry evicted to admit a new key is not the least-recent entry of %s (%s)" % (".".join(target), src))
    if ok:
        chk.ob("C07.R1" if name != "put_protected" else "C07.R4", "%s:%s" % (cfg, f["q"]), "routing conforms on %s" % counts, {"fn": f["q"], "classes": counts})
    for k, n in counts.items():
        if name == "put_protected" and k == "hit-probationary" or name != "put_protected":
            if ok and n < 1:
                raise AnalysisError("C07: no %s path found in %s (%s)" % (k, f["q"], cfg))


def per_segment(cx, chk, cfg, F):
    adt = api.CACHES["SegmentedCache"]
    segs = [x for x, _ in composite.list_fields(F, adt)]
    n = 0
    for f, im in api.cache_methods(F, adt):
        if im["trait"] or not f.get("exported") or not f.get("has_self") or F.body(f["path"]) is None:
            continue
        seg = next((x for x in segs if f["name"].endswith("_from_" + x) or f["name"].startswith(x + "_")), None)
        if seg is None:
            continue
        n += 1
        other = set()
        for p in cx.paths(cfg, f["path"]):
            for e in p.events:
                locs = []
                if e["ev"] == "call" and e.get("hm") and e.get("recv"):
                    locs.append(e["recv"])
                if e["ev"] in ("store", "swap", "replace") and e.get("loc"):
                    locs.append(e["loc"])
                for a in (e.get("args") or []) if e["ev"] in ("enter",) else []:
                    if isinstance(a, tuple) and a[0] == "ref":
                        locs.append(a[1])
                for loc in locs:
                    if loc[0] == "H" and loc[1] == ("param", 1, True) and loc[2] and loc[2][0] in segs and loc[2][0] != seg:
                        other.add(loc[2][0])
        if other:
            chk.violation("C07.R8", "%s|%s" % (f["q"], ",".join(sorted(other))), "%s is an operation on the %s segment but reaches the %s segment" % (f["q"], seg, ", ".join(sorted(other))),
                          f["span"]["file"], f["span"]["lo"], f["q"], None, cfg)
        else:
            chk.ob("C07.R8", "%s:%s" % (cfg, f["q"]), "confined to %s" % seg)
    chk.floor("C07.R8", "per-segment operations of SegmentedCache in %s" % cfg, n, 8)
