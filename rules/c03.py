"""C03 - memory safety of the intrusive lists: per-function obligations for preserving the list/index invariant."""
from .lib import api, ntrun, nt
from .lib.facts import AnalysisError

LEVEL = "other"
EXPLANATION = (
    "Node typestate over every acyclic path of the fully inlined MIR of every exported function and trait method (both feature "
    "configurations). Each entry node carries (linked-in-list, indexed-in-map, raw/boxed/freed, key/val initialised); every detach, "
    "attach, map insert/remove, Box::from_raw, payload move and key overwrite is checked against the transition table of DESIGN 3.1, "
    "sentinel loads ((*tail).prev / (*head).next) may be used as entries only on paths carrying a non-emptiness fact, stores to prev/next "
    "and to head/tail are confined to the derived link primitives / the sentinel constructor, and at every normal exit no node is linked "
    "xor indexed and no freed node is still reachable. This decides the structural preconditions of the ~40 unsafe sites on all paths; "
    "it assumes the list invariant at function entry, trusts the four pointer stores inside attach/detach, and does not decide "
    "Stacked/Tree-Borrows aliasing (Miri's domain)."
    " R10 also covers C19.S3: no iterator handing out &mut is Clone or Copy."
)
TRUSTED_BASE = ["MIR facts from /verif/factdump", "models of HashMap/Option/Box/MaybeUninit/mem/ptr in rules/lib/absint.py",
                "attach/detach meet their contracts (derived as the only functions storing to EntryNode.prev/next)",
                "distinct lookup sources denote distinct nodes (unique keys)"]


def run(cx, chk):
    chk.rule("C03.R1", "node typestate transitions: detach only linked, attach only unlinked, free only unlinked+unindexed, no node left linked xor indexed")
    chk.rule("C03.R2", "a pointer loaded from (*tail).prev / (*head).next is used as an entry only under a non-emptiness fact; sentinels never have key/val accessed")
    chk.rule("C03.R2b", "cap >= 1 for inner lists: no resize / cap write reachable on a RawLRU field of a composite cache")
    chk.rule("C03.R4", "prev/next are stored only by the link primitives, head/tail only by the sentinel constructor, sentinels freed only in Drop")
    chk.rule("C03.R5", "Drop::drop re-boxes every drained node and both sentinels exactly once")
    for cfg, F in cx.cfgs():
        P = ntrun.prims(F)
        kinds = sorted(P.kind.values())
        if kinds.count("attach") != 1 or kinds.count("detach") != 1 or kinds.count("init") < 1:
            raise AnalysisError("link primitives not recognised in %s: %s" % (cfg, P.kind))
        for d, k in P.kind.items():
            chk.ob("C03.R4", "%s:prim:%s" % (cfg, F.fns[d]["q"]), "classified as %s" % k)
        # attach links next to head (C06.R2 relies on it too)
        for d, k in P.kind.items():
            if k == "attach" and "tail" in P.head_only[d]:
                chk.violation("C03.R4", "attach-mentions-tail|" + F.fns[d]["q"], "attach touches the tail sentinel: it must link next to head only",
                              F.fns[d]["span"]["file"], F.fns[d]["span"]["lo"], F.fns[d]["q"], None, cfg)
        r2b(cx, chk, cfg, F)
    drop_seen = {}

    chk.rule("C03.R8", "'after every public operation' includes operations that end by unwinding out of the eviction callback: at every callback site each node is in its list's chain iff it is in that list's index")
    cb_sites = {}

    def extra(cfg, F, f, p, w):
        from .lib.absint import fmt_val
        for (i, e, kind, snap) in w.snapshots:
            if kind != "cb":
                continue
            cb_sites[cfg] = cb_sites.get(cfg, 0) + 1
            for node, st in snap.items():
                if st.kind in ("unknown", "sentinel") or st.own != "raw":
                    continue
                L, I = isinstance(st.link, tuple), isinstance(st.index, tuple)
                if L != I or (L and I and st.link[1:] != st.index[1:]):
                    g = F.fns.get(e.get("fn")) or f
                    chk.violation("C03.R8", "%s|%s" % (f["q"], st.src.split("#")[0]),
                                  "the eviction callback runs while node %s is linked=%s indexed=%s: if it unwinds, the operation ends with a chain whose nodes are not exactly the entries of the index"
                                  % (fmt_val(node), st.link if L else False, st.index if I else False), g["span"]["file"], e.get("ln"), g["q"], ["root " + f["q"]], cfg)
        ntrun.dup_source_drops(chk, cfg, F, f, p, "C03.R11")
        if ntrun.is_teardown(f) and f["q"].startswith("<lru::raw::RawLRU"):
            frees = [e for e in w.events_on if e[1] == "free-sentinel"]
            reboxes = [e for e in w.events_on if e[1] == "rebox"]
            drop_seen.setdefault(cfg, []).append((len(frees), len(reboxes), [e for e in p.events if e["ev"] == "loop"]))
    ntrun.report_findings(cx, chk, ("C03.",), extra)
    for cfg, F in cx.cfgs():
        chk.floor("C03.R8", "callback site visits in %s" % cfg, cb_sites.get(cfg, 0), 20)
        if not any(k.startswith("C03.R8|") for k in chk.violations):
            chk.ob("C03.R8", cfg + ":callback-sites", "chain = index at %d callback site visits" % cb_sites.get(cfg, 0))
    # R7: the same typestate obligations when a lookup by a node's own key may MISS (K's Eq/Hash are user code and need not be
    # consistent; a safe API must stay memory-safe): the code has to branch on the lookup's result before it unlinks / frees the node
    chk.rule("C03.R7", "typestate also holds when own-key lookups may miss (inconsistent user Eq/Hash): the node is unlinked/freed only on the hit branch")
    for cfg, F in cx.cfgs():
        seen = {}
        for f, p, w in ntrun.walk(cx, cfg, noeq=True):
            misses = [e for e in p.events if e["ev"] == "call" and e.get("hm") and not e.get("present") and isinstance(e.get("keysrc"), tuple)
                      and e["keysrc"][0] == "ref" and e["keysrc"][1][0] == "H" and e["keysrc"][1][2][:1] == ("key",)]
            if not misses:
                continue
            r = seen.setdefault(f["q"], [0, 0])
            r[0] += 1
            for fd in w.findings:
                if not fd["rule"].startswith(("C03.R1", "C04.R1")):
                    continue
                r[1] += 1
                g = F.fns.get(fd["fn"]) or f
                chk.violation("C03.R7", "%s|%s|%s" % (f["q"], g["q"], ntrun.norm(fd["msg"])[:120]),
                              "if the lookup of an entry's own key misses (inconsistent Eq/Hash of K), %s (reached from %s)" % (fd["msg"], f["q"]),
                              g["span"]["file"], fd["ln"], g["q"], ["root " + f["q"]], cfg)
        for q, (n, bad) in seen.items():
            if not bad:
                chk.ob("C03.R7", "%s:%s" % (cfg, q), "typestate holds on %d own-key-miss paths" % n)
    chk.rule("C03.R11", "no value is dropped at its source after ptr::read copied it into a node (the node would keep a dangling value): engine of C04.R6")
    chk.rule("C03.R9", "one node per key: put_nonnull's map.insert may only meet a key that is in no other retained list (engine of C01.R4) - two nodes for one key leave an index key pointing into the other node")
    chk.rule("C03.R10", "no safe signature hands out a reference or iterator that is not tied to the borrow of the cache (engine of C19.S1/S2): such a value outlives purge/drop and dereferences freed nodes")
    from . import c01, c19
    from .lib.report import Relabel
    for cfg, F in cx.cfgs():
        c01.r4(cx, Relabel(chk, {"C01.R4": "C03.R9"}), cfg, F)
        items = c19.iterator_items(F)
        muts = {h for h, o in items.items() if c19.has_mut_ref(o)}
        c19.s1s2(Relabel(chk, {"C19.S1": "C03.R10", "C19.S2": "C03.R10"}), cfg, F, muts)
        # ... nor can a mutable iterator be duplicated: two copies hand out two live &mut to the same node's value
        c19.s3(Relabel(chk, {"C19.S3": "C03.R10"}, keep=lambda key: True), cfg, F, items, muts)
    for cfg, F in cx.cfgs():
        got = drop_seen.get(cfg)
        if not got:
            raise AnalysisError("Drop::drop of RawLRU not analysed in %s" % cfg)
        f = F.find("RawLRU as core::ops::Drop>::drop")
        ok = all(fr == 2 for fr, rb, lp in got) and any(rb >= 1 for fr, rb, lp in got)
        if ok:
            chk.ob("C03.R5", cfg + ":RawLRU::drop", "both sentinels re-boxed on every path, drained nodes re-boxed in the loop body")
        else:
            chk.violation("C03.R5", "RawLRU::drop", "Drop::drop does not re-box both sentinels exactly once on every path / does not free drained nodes: %s" % got,
                          f["span"]["file"], f["span"]["lo"], f["q"], None, cfg)


def r2b(cx, chk, cfg, F):
    """who-may-call: `resize` (or any store to RawLRU.cap) is never applied to a RawLRU that is a field of a composite cache"""
    n = 0
    for b in F.doc["bodies"]:
        fn = F.fns.get(b["path"])
        for blk in b["blocks"]:
            for s in blk["s"]:
                if s["k"] == "assign":
                    pr = [e for e in s["p"]["p"] if isinstance(e, dict) and "f" in e]
                    if pr and pr[-1]["n"] == "cap" and pr[-1]["of"] == "lru::raw::RawLRU":
                        n += 1
                        if len(pr) > 1:
                            chk.violation("C03.R2b", "cap-store|" + fn["q"], "store to the cap of an inner list (%s)" % ".".join(e["n"] for e in pr),
                                          fn["span"]["file"], s["ln"], fn["q"], None, cfg)
                        else:
                            chk.ob("C03.R2b", "%s:cap-store:%s" % (cfg, fn["q"]), "writes self.cap of a bare RawLRU only")
            t = blk["t"]
            if t["k"] == "call" and "q" in t["f"]:
                q = (t["f"].get("resolved") or t["f"])["q"]
                if q.endswith("ResizableCache>::resize") or q.endswith("ResizableCache::resize"):
                    im = F.impl_of(fn) if fn else None
                    head = im["self_head"] if im else ""
                    if head in api.CACHE_HEADS and head != api.CACHES["RawLRU"]:
                        chk.violation("C03.R2b", "resize-call|" + fn["q"], "resize is called on an inner list of %s: cap >= 1 can no longer be assumed for it" % head,
                                      fn["span"]["file"], t["ln"], fn["q"], None, cfg)
    chk.floor("C03.R2b", "stores to RawLRU.cap in %s" % cfg, n, 1)
