"""C18 - a panic in user code never leads to double drop or dangling nodes: unwind-state obligation at every user-code site."""
from .lib import api, ntrun
from .lib.absint import fmt_val
from .lib.nt import fmt_list

LEVEL = "other"
EXPLANATION = (
    "The property's quantifier 'the i-th call into user code, for every i' is replaced by 'every user-code call site on every path': a MIR "
    "call is a user-code site if it is a HashMap lookup/insert/remove on KeyRef<K> keys (K::hash / K::eq / BuildHasher run inside), a trait "
    "call on a type parameter that does not resolve (Hash, Eq, Clone, Borrow, KeyHasher, OnEvictCallback::on_evict, caller iterators), or a "
    "Drop / drop_in_place of a value whose type mentions K or V. At each such site, on every acyclic path of the fully inlined MIR of every "
    "exported function, the node typestate (C03) of every tracked node must be unwind-safe: indexed => linked in the same list; re-boxed or "
    "freed => unlinked and unindexed; linked or indexed => key and val initialised and not duplicated by ptr::read. States (linked, "
    "unindexed) and (unlinked, unindexed, raw) are allowed: they leak, which the property permits. Panics inside std's HashMap internals, "
    "aborts and double panics are outside the property."
)
TRUSTED_BASE = ["as C03", "std/hashbrown HashMap is itself panic-safe w.r.t. user Hash/Eq", "Drop::drop of RawLRU is analysed in teardown mode (the list dies)"]


def run(cx, chk):
    chk.rule("C18.R1.1", "at a user-code site: node indexed in X => linked in X")
    chk.rule("C18.R1.2", "at a user-code site: node re-boxed/freed => unlinked and unindexed")
    chk.rule("C18.R1.3", "at a user-code site: node linked or indexed => key and val initialised")
    chk.rule("C18.R1.4", "at a user-code site: no payload of a reachable node is owned twice (ptr::read / assume_init_read copy alive)")
    chk.rule("C18.R3", "Drop::drop re-boxes each node before its key/val are dropped (teardown)")
    sites = {}

    def extra(cfg, F, f, p, w):
        td = ntrun.is_teardown(f)
        for (i, e, kind, snap) in w.snapshots:
            if kind == "cb":
                continue
            g = F.fns.get(e.get("fn")) or f
            skey = (cfg, g["q"], e.get("q") or e["ev"], e.get("ln"))
            sites[skey] = sites.get(skey, 0) + 1
            for n, st in snap.items():
                if st.kind in ("unknown", "sentinel"):
                    continue
                L = isinstance(st.link, tuple)
                I = isinstance(st.index, tuple)
                what = "%s at %s" % (e.get("q") or e["ev"], "line %s" % e.get("ln"))
                base = "%s|%s|%s" % (g["q"], (e.get("q") or e["ev"]), st.src.split("#")[0])
                if td:
                    if e["ev"] in ("drop_in_place",) and st.own == "raw" and n == root_node_of(e):
                        chk.violation("C18.R3", base, "in Drop::drop the payload of node %s is dropped before the node is re-boxed: a panicking drop would free it again" % fmt_val(n),
                                      g["span"]["file"], e.get("ln"), g["q"], ["root " + f["q"]], cfg)
                    continue
                if I and not (L and st.link[1] == st.index[1]):
                    chk.violation("C18.R1.1", base, "user code (%s) runs while node %s is indexed in %s but not linked there (%s): after a panic a lookup would detach it through stale neighbours"
                                  % (what, fmt_val(n), fmt_list(st.index[1]), st.short()), g["span"]["file"], e.get("ln"), g["q"], ["root " + f["q"]], cfg)
                if st.own in ("boxed", "freed") and (L or I) and n[0] != "alloc":
                    chk.violation("C18.R1.2", base, "user code (%s) runs while node %s is already re-boxed/freed but still %s (%s): unwinding frees it while it stays reachable"
                                  % (what, fmt_val(n), "linked" if L else "indexed", st.short()), g["span"]["file"], e.get("ln"), g["q"], ["root " + f["q"]], cfg)
                if (L or I) and st.own == "raw":
                    for fld in ("key", "val"):
                        v = getattr(st, fld)
                        if v == "moved":
                            chk.violation("C18.R1.3", base + "|" + fld, "user code (%s) runs while reachable node %s has its %s moved out (%s): it would be dropped twice"
                                          % (what, fmt_val(n), fld, st.short()), g["span"]["file"], e.get("ln"), g["q"], ["root " + f["q"]], cfg)
                        elif v == "dup":
                            chk.violation("C18.R1.4", base + "|" + fld, "user code (%s) runs while the %s of reachable node %s is also owned by a copy made with ptr::read: a panic drops the copy and the node keeps the same %s"
                                          % (what, fld, fmt_val(n), fld), g["span"]["file"], e.get("ln"), g["q"], ["root " + f["q"]], cfg)

    ntrun.report_findings(cx, chk, ("C18.",), extra)
    # R2: drop guards. Crate types with a Drop impl (other than the caches) are executed by the interpreter when they go out of scope and,
    # from every user-code site whose cleanup chain drops one, along the unwinding path (absint.explore_unwind). What the guard's
    # Drop::drop does to nodes is judged by the typestate walker: re-boxing a node that is still linked or indexed = dangling entry.
    chk.rule("C18.R5", "after an unwind that left a node linked but unindexed (a permitted leak), later operations stop with a safe panic (unwrap on the failed own-key lookup): "
                       "no unwrap_unchecked / unreachable_unchecked / get_unchecked / unchecked arithmetic / intrinsics::assume replaces such a check anywhere in the crate")
    UNCHECKED = ("unwrap_unchecked", "unreachable_unchecked", "get_unchecked", "get_unchecked_mut", "unchecked_add", "unchecked_sub", "unchecked_mul", "assume", "assert_unchecked", "unwrap_err_unchecked")
    for cfg, F in cx.cfgs():
        n_calls = 0
        for b in F.doc["bodies"]:
            fn = F.fns[b["path"]]
            for blk in b["blocks"]:
                t = blk["t"]
                if t["k"] != "call" or "q" not in t["f"] or t.get("exp"):
                    continue
                n_calls += 1
                q = (t["f"].get("resolved") or t["f"])["q"]
                if q.split("::")[-1] in UNCHECKED and q.startswith(("core::", "std::", "alloc::")):
                    chk.violation("C18.R5", "%s|%s" % (fn["q"], q.split("::")[-1]), "%s calls %s: where HEAD's check turns a cache damaged by an earlier unwind into a safe panic, this is undefined behaviour" % (fn["q"], q),
                                  fn["span"]["file"], t["ln"], fn["q"], None, cfg)
        chk.floor("C18.R5", "calls scanned in %s" % cfg, n_calls, 800)
        if not any(k.startswith("C18.R5|") for k in chk.violations):
            chk.ob("C18.R5", cfg + ":unchecked", "no unchecked assumption among %d calls" % n_calls)
    # R6: operations that start from the state a permitted leak-type unwind leaves behind. A node may then be linked but unindexed while
    # a re-inserted copy of its key is indexed, so "the node the index returns for this node's own key" need not be this node. The
    # typestate walk is repeated without that identification; what a function unlinks and what it frees must still be the same node.
    chk.rule("C18.R6", "orphan mode: with the index allowed to return a different node for a node's own key (the state after a leak-type unwind), no function frees a node that is still linked or indexed, or frees one twice")
    from .lib import nt as ntmod2
    for cfg, F in cx.cfgs():
        P2 = ntrun.prims(F)
        n_paths = bad6 = 0
        for f in api.roots(F):
            if ntrun.is_teardown(f):
                continue
            for p in cx.paths(cfg, f["path"], models=cx.models_orphan(cfg), tag="orphan"):
                n_paths += 1
                w = ntmod2.NT(F, P2, p, f["q"], False).run()
                for fd in w.findings:
                    if not (fd["rule"].startswith(("C03.R1", "C04.R1")) and ("Box::from_raw" in fd["msg"] or "freed node" in fd["msg"] or "re-boxed twice" in fd["msg"] or "double free" in fd["msg"])):
                        continue
                    bad6 += 1
                    g = F.fns.get(fd["fn"]) or f
                    chk.violation("C18.R6", "%s|%s|%s" % (f["q"], g["q"], ntrun.norm(fd["msg"])[:120]),
                                  "if an earlier unwind left a linked-but-unindexed node whose key was put again, the index returns the copy for that key: %s (reached from %s)" % (fd["msg"], f["q"]),
                                  g["span"]["file"], fd["ln"], g["q"], ["root " + f["q"]], cfg)
        chk.floor("C18.R6", "paths walked in orphan mode (%s)" % cfg, n_paths, 500)
        if not bad6:
            chk.ob("C18.R6", cfg + ":orphan-mode", "no free of a linked/indexed node on %d paths" % n_paths)
    chk.rule("C18.R2", "drop guards: on every unwinding path out of a user-code site, and on every normal path, a guard frees a node only while it is unlinked and unindexed, and never twice")
    from .lib import nt as ntmod
    for cfg, F in cx.cfgs():
        P = ntrun.prims(F)
        n_unw = 0
        guards = None
        for f in api.roots(F):
            cx.paths(cfg, f["path"])
            for p in cx.unwound(cfg, f["path"]):
                n_unw += 1
                w = ntmod.NT(F, P, p, f["q"], ntrun.is_teardown(f)).run()
                start = next((i for i, e in enumerate(p.events) if e["ev"] == "unwind_begin"), len(p.events))
                for fd in w.findings:
                    # only what the guard frees matters here: leaks and half-done list updates are what unwinding normally leaves behind
                    if not (fd["rule"].startswith(("C03.R1", "C04.R1")) and ("Box::from_raw" in fd["msg"] or "freed node" in fd["msg"] or "re-boxed twice" in fd["msg"] or "double free" in fd["msg"])):
                        continue
                    idx = fd.get("idx")
                    g = F.fns.get(fd["fn"]) or f
                    site = p.events[start]
                    chk.violation("C18.R2", "%s|%s|%s" % (f["q"], g["q"], ntrun.norm(fd["msg"])[:120]),
                                  "if user code (%s, line %s) panics, the drop guard run while unwinding does this: %s (reached from %s)" % (site.get("q"), site.get("ln"), fd["msg"], f["q"]),
                                  g["span"]["file"], fd["ln"], g["q"], ["root " + f["q"], "unwinding from line %s" % site.get("ln")], cfg)
        it_guards = sorted(x for x in (im.get("self_head") for im in F.doc["impls"] if im.get("trait") == "core::ops::Drop") if x != api.CACHES["RawLRU"])
        chk.ob("C18.R2", cfg + ":guards", "drop-guard types in the crate: %s; %d unwinding paths through a guard analysed" % (it_guards or "none", n_unw))
    for (cfg, fn, q, ln), n in sorted(sites.items()):
        chk.ob("C18.site", "%s:%s|%s" % (cfg, fn, q), "unwind-safe node states on %d path visits" % n,
               {"function": fn, "user_code_site": q, "path_visits": n})
    for cfg in ("std", "no_std"):
        chk.floor("C18.site", "user-code sites in %s" % cfg, len([1 for k in sites if k[0] == cfg]), 60)


def root_node_of(e):
    from .lib.nt import payload_field
    pf = payload_field(e.get("val"))
    return pf[0] if pf else None
