"""C13 - read-only operations change nothing: sound effect analysis over the inlined abstract paths."""
from .lib import api
from .lib.absint import fmt_loc, fmt_val, root_of
from .lib.effects import mutation_events

LEVEL = "proof"
EXPLANATION = (
    "Effect analysis. For every method the property calls read-only (derived from the item facts by name pattern: peek*, contains, len, "
    "cap, is_empty, get_mru*, every iterator constructor/Iterator/DoubleEndedIterator/Clone method of the ten iterator types, the per-list "
    "accessors of 2Q/ARC/W-TinyLFU, Debug::fmt, and the hit branch of peek_or_put/peek_mut_or_put/contains_or_put) every acyclic path of "
    "the fully inlined MIR (closures and same-crate callees spliced in, both feature configurations) is enumerated and must contain no "
    "store through a pointer/reference into memory reachable from the receiver, no swap/replace/ptr::write/drop_in_place/Box::from_raw on "
    "such memory, no hash-map insert/remove/clear/drain/retain and no call to a mutating Vec/slice/atomic API; iterator methods may store "
    "only to the iterator's own cursor fields. 'Never, in any history' reduces to 'no path to a mutator', which this decides; what it "
    "does not decide is listed in DESIGN.md section 7 (nothing of substance for C13)."
)
TRUSTED_BASE = [
    "rustc nightly MIR at -Zmir-opt-level=0 (callee resolution, closure bodies) as serialised by /verif/factdump",
    "the table of std/hashbrown APIs classified as mutating (rules/lib/effects.py); an unmodelled external call that receives &mut access "
    "to cache state is reported as UNDECIDED (exit 2), never passed",
    "calls into user code (Hash/Eq/Borrow of K, BuildHasher, KeyHasher) are outside the library's state",
]


def run(cx, chk):
    chk.rule("C13.R1", "no path of a read-only method stores to, swaps, frees or re-indexes memory reachable from the receiver")
    chk.rule("C13.R1b", "hit branch of peek_or_put / peek_mut_or_put / contains_or_put (paths returning (.., None)) is read-only")
    chk.rule("C13.R2", "the reference handed out by peek/peek_mut/get_mru* points at the node's own val (no copy)")
    total = 0
    for cfg, F in cx.cfgs():
        ro = api.readonly_methods(F)
        chk.floor("C13.R1", "read-only methods in %s" % cfg, len(ro), 150)
        iters = api.iterator_heads(F)
        for f, im, why in ro:
            paths = cx.paths(cfg, f["path"])
            total += len(paths)
            own_fields_ok = im["self_head"].lstrip("&").replace("mut ", "") in iters
            bad = []
            for p in paths:
                for m in mutation_events(p, own_fields_ok):
                    bad.append(m)
            key = "%s" % f["q"]
            if bad:
                m = bad[0]
                chk.violation("C13.R1", key + "|" + m["kind"] + "|" + m["what"],
                              "read-only method %s reaches a mutation: %s" % (f["q"], m["text"]),
                              fn_file(F, m, f), m.get("ln") or f["span"]["lo"], f["q"], m.get("witness"), cfg)
            else:
                chk.ob("C13.R1", cfg + ":" + key, "no mutation event on %d paths" % len(paths),
                       {"method": f["q"], "why_readonly": why, "paths": len(paths)})
        for f, im in api.branch_scoped_methods(F):
            paths = cx.paths(cfg, f["path"])
            hit = [p for p in paths if is_hit_path(p)]
            if not hit:
                chk.undecide("C13.R1b", f["q"], "no path returning (.., None) found")
                continue
            bad = [m for p in hit for m in mutation_events(p, False)]
            if bad:
                m = bad[0]
                chk.violation("C13.R1b", f["q"] + "|" + m["kind"] + "|" + m["what"],
                              "hit branch of %s reaches a mutation: %s" % (f["q"], m["text"]),
                              fn_file(F, m, f), m.get("ln") or f["span"]["lo"], f["q"], m.get("witness"), cfg)
            else:
                chk.ob("C13.R1b", cfg + ":" + f["q"], "no mutation on %d hit paths" % len(hit))
        # R2: returned references of the peeks derive from the node's val
        for f, im, why in ro:
            if f["name"] in ("peek", "peek_mut") and im["self_head"] == api.CACHES["RawLRU"] and im["trait"] == api.CACHE_TRAIT:
                for p in cx.paths(cfg, f["path"]):
                    rv = p.ret
                    if isinstance(rv, tuple) and rv[0] == "agg" and rv[2][1] == "Some":
                        x = rv[3][0]
                        ok = isinstance(x, tuple) and x[0] == "ref" and x[1][0] == "H" and x[1][2][-1:] == ("val",) and root_of(x)[0] == "node"
                        if ok:
                            chk.ob("C13.R2", cfg + ":" + f["q"], "returns &(*node).val")
                        else:
                            chk.violation("C13.R2", f["q"], "%s returns %s, not a reference to the found node's val" % (f["q"], fmt_val(x)),
                                          f["span"]["file"], f["span"]["lo"], f["q"], None, cfg)
    chk.count("paths_enumerated", total)
    chk.assumptions.append("mutator table is complete w.r.t. policy state: any store through a pointer counts, whatever the field")


def is_hit_path(p):
    rv = p.ret
    if isinstance(rv, tuple) and rv[0] == "agg" and rv[1] == "tuple" and len(rv[3]) == 2:
        second = rv[3][1]
        return isinstance(second, tuple) and second[0] == "agg" and second[2] and second[2][1] == "None"
    return False


def fn_file(F, m, f):
    g = F.fns.get(m.get("fn"))
    return (g or f)["span"]["file"]
