"""C17 - behaviour independent of hasher, collisions and addresses: information-flow with an empty set of admissible sources."""
from .lib import api
from .lib.facts import AnalysisError

LEVEL = "other"
EXPLANATION = (
    "The only ways hasher- or address-dependent information can reach a result are enumerable and each is shown absent in the code of the "
    "five caches (both configurations): R1 no order-exposing iteration (iter/iter_mut/keys/values/values_mut/into_iter/drain/retain/"
    "extract_if, IntoIterator for &HashMap) over a hash index of entry nodes except in Drop::drop; R2 no pointer->integer cast, addr()/"
    "expose_provenance, ordering comparison or formatting of node/key pointers (pointer equality is allowed); R3 no hash value "
    "(hash_one/build_hasher/finish/KeyHasher::hash_key) computed in the LRU-family modules - hashes are consumed inside HashMap only - and "
    "in W-TinyLFU the key hash flows only into TinyLFU; R4 no clock or random source in the LRU-family modules. Lookups return "
    "hasher-independent answers by the Hash/Eq contract, every other decision reads list order, lengths and configuration, so R1-R4 are "
    "jointly sufficient for the LRU family; for W-TinyLFU the 'given the same estimator verdicts' proviso is taken as stated."
)
TRUSTED_BASE = ["MIR facts (resolved callees, cast kinds, operand types)", "Hash/Eq contract of K"]

ORDER_EXPOSING = ("iter", "iter_mut", "keys", "values", "values_mut", "into_iter", "drain", "retain", "extract_if", "into_keys", "into_values")
LRU_FILES = ("src/lru/", "src/lru.rs", "src/cache_api.rs", "src/lib.rs")


def node_map(ty):
    return "HashMap<" in ty and "NonNull<lru::raw::EntryNode" in ty


ORDER_FREE = ("get", "get_mut", "get_key_value", "contains_key", "contains", "insert", "remove", "remove_entry", "len", "is_empty", "capacity", "reserve",
              "shrink_to_fit", "shrink_to", "clear", "entry", "hasher", "try_reserve", "take", "replace")
HASH_HEADS = ("HashMap<", "HashSet<", "hash_map::", "hash_set::", "hash::map::", "hash::set::")


def hash_container(ty):
    return any(h in ty for h in HASH_HEADS)


SIZING = ("with_capacity", "with_capacity_and_hasher", "with_capacity_and_hasher_in", "reserve", "try_reserve", "shrink_to", "with_capacity_in")


def capacity_escapes(b, call_t):
    """None if the value a capacity() call returns is only ever handed to allocation-sizing functions inside this body; otherwise a
    description of the first other use"""
    if not call_t.get("d"):
        return None
    tainted = {call_t["d"]["l"]}
    changed = True

    def uses(op):
        return op.get("k") in ("move", "copy") and op["p"]["l"] in tainted
    while changed:
        changed = False
        for blk in b["blocks"]:
            for s_ in blk["s"]:
                if s_["k"] != "assign":
                    continue
                r = s_["r"]
                src = [r.get("o")] if r["k"] in ("use", "cast") else []
                if any(o and uses(o) for o in src) and not s_["p"]["p"] and s_["p"]["l"] not in tainted:
                    tainted.add(s_["p"]["l"])
                    changed = True
    for blk in b["blocks"]:
        for s_ in blk["s"]:
            if s_["k"] != "assign":
                continue
            r = s_["r"]
            ops = [r.get(k) for k in ("a", "b") if isinstance(r.get(k), dict)] + [o for o in r.get("os", []) if isinstance(o, dict)]
            if r["k"] in ("use", "cast") and r.get("o") and uses(r["o"]) and s_["p"]["p"]:
                return "stores it (line %s)" % s_["ln"]
            if any(uses(o) for o in ops):
                return "computes with it (line %s)" % s_["ln"]
            if r["k"] in ("use", "cast") and r.get("o") and uses(r["o"]) and s_["p"]["l"] == 0:
                return "returns it (line %s)" % s_["ln"]
        t = blk["t"]
        if t["k"] == "switch" and uses(t["o"]):
            return "branches on it (line %s)" % t.get("ln")
        if t["k"] == "call" and t is not call_t:
            for a in t["args"]:
                if uses(a):
                    q = (t["f"].get("resolved") or t["f"]).get("q") or ""
                    if q.split("::")[-1] not in SIZING:
                        return "passes it to %s (line %s)" % (q, t["ln"])
        if t["k"] == "assert" and (uses(t["c"]) or any(uses(o) for o in t["ops"])):
            return "asserts on it (line %s)" % t.get("ln")
    return None


def origin(b, op, depth=0):
    """where the operand's value comes from inside this body: 'param' iff every definition chain ends in one of the function's own arguments"""
    if op.get("k") not in ("move", "copy"):
        return "is a constant"
    l = op["p"]["l"]
    seen = set()
    work = [l]
    while work:
        l = work.pop()
        if l in seen:
            continue
        seen.add(l)
        if 1 <= l <= b["arg_count"]:
            continue
        defs = []
        for blk in b["blocks"]:
            for s in blk["s"]:
                if s["k"] == "assign" and s["p"]["l"] == l:
                    defs.append(s["r"])
            t = blk["t"]
            if t["k"] == "call" and t.get("d") and t["d"]["l"] == l:
                # an iterator/view derived from a hash container inherits that container's origin
                src = [a for a, ty in zip(t["args"], t["arg_tys"]) if hash_container(ty) and a.get("k") in ("move", "copy")]
                if not src:
                    return "is built here (result of %s)" % ((t["f"].get("resolved") or t["f"]).get("q") or "an indirect call")
                work.extend(a["p"]["l"] for a in src)
                defs.append(None)
        if not defs:
            return "has no visible definition"
        for r in defs:
            if r is None:
                continue
            if r["k"] in ("use", "cast") and r["o"].get("k") in ("move", "copy"):
                work.append(r["o"]["p"]["l"])
            elif r["k"] == "ref":
                work.append(r["p"]["l"])
            else:
                return "is built here (%s)" % r["k"]
    return "param"


def run(cx, chk):
    chk.rule("C17.R1", "no order-exposing iteration over a hash index of entry nodes outside Drop::drop")
    chk.rule("C17.R2", "no address observation: pointer->int casts, addr(), ordered pointer comparison, pointer formatting")
    chk.rule("C17.R3", "no hash values computed in the LRU-family modules; in W-TinyLFU the hash flows only into TinyLFU")
    chk.rule("C17.R4", "no clock / random source in the LRU-family modules")
    chk.rule("C17.R6", "HashMap::capacity() of a node index is used as an allocation-size hint only (never compared, stored or returned)")
    chk.rule("C17.R5", "a hash container that is not the node index is only consumed in iteration order when it is the caller's own argument: no hash container built inside the LRU-family modules is iterated or handed on")
    chk.rule("C17.R7", "supplying a BuildHasher changes nothing but hashing: the builder methods (hasher setters included) keep every other field of the builder in place")
    from .lib import composite
    for cfg, F in cx.cfgs():
        composite.builder_setters(cx, chk, cfg, F, "C17.R7")
    for cfg, F in cx.cfgs():
        n_calls = n_drop = n_casts = n_cmp = n_hc = n_cap = 0
        for b in F.doc["bodies"]:
            fn = F.fns[b["path"]]
            owner = fn
            while owner.get("kind") == "Closure":
                owner = F.fns[owner["parent"]]
            file = fn["span"]["file"]
            in_lru = file.startswith(LRU_FILES)
            is_drop = owner["q"].endswith("core::ops::Drop>::drop")
            ltys = [l["ty"] for l in b["locals"]]
            for blk in b["blocks"]:
                for s in blk["s"]:
                    if s["k"] != "assign":
                        continue
                    r = s["r"]
                    if r["k"] == "cast" and ("Expose" in r["ck"] or (r["ck"] == "Transmute" and r["from"].startswith(("*", "&", "core::ptr::NonNull")) and r["ty"] in ("usize", "u64", "isize", "i64"))):
                        n_casts += 1
                        chk.violation("C17.R2", "cast|%s|%s" % (fn["q"], r["from"]), "pointer %s is cast to the integer type %s: an address can influence results" % (r["from"], r["ty"]),
                                      file, s["ln"], fn["q"], None, cfg)
                    if r["k"] == "bin" and r["op"] in ("Lt", "Le", "Gt", "Ge") and r["ty"].startswith(("*", "core::ptr::NonNull")):
                        chk.violation("C17.R2", "ptrcmp|%s" % fn["q"], "ordering comparison of pointers (%s)" % r["ty"], file, s["ln"], fn["q"], None, cfg)
                    if r["k"] == "bin" and r["op"] in ("Eq", "Ne") and r["ty"].startswith("*"):
                        n_cmp += 1
                t = blk["t"]
                if t["k"] != "call" or "q" not in t["f"]:
                    continue
                f = t["f"]
                q = (f.get("resolved") or f)["q"]
                name = q.split("::")[-1]
                st = f.get("self_ty", "")
                args_ty = " ".join(t["arg_tys"])
                n_calls += 1
                # R1
                it_map = (name in ORDER_EXPOSING and node_map(st)) or (name == "into_iter" and node_map(args_ty))
                if it_map:
                    if is_drop and (F.impl_of(owner) or {}).get("self_head") == api.CACHES["RawLRU"]:
                        n_drop += 1
                        chk.ob("C17.R1", "%s:%s|%s" % (cfg, owner["q"], name), "allowed: Drop frees everything, order unobservable through results")
                    else:
                        chk.violation("C17.R1", "%s|%s" % (owner["q"], name), "%s iterates the hash index (%s): its order depends on the hasher and on collisions" % (owner["q"], q),
                                      file, t["ln"], fn["q"], None, cfg)
                # R6: HashMap::capacity of a node index depends on the table's layout history (tombstones): sizing hint only
                if name == "capacity" and node_map(st + " " + args_ty):
                    n_cap += 1
                    leak = capacity_escapes(b, t)
                    if leak:
                        chk.violation("C17.R6", "%s|capacity" % owner["q"], "%s reads the hash index's capacity() and %s: the table's capacity depends on the hasher's key layout and on tombstones left by removals"
                                      % (owner["q"], leak), file, t["ln"], fn["q"], None, cfg)
                    else:
                        chk.ob("C17.R6", "%s:%s|capacity" % (cfg, owner["q"]), "capacity() flows only into allocation sizing (with_capacity*/reserve/shrink_to)")
                # R2 addr / formatting of pointers
                if name in ("addr", "expose_provenance", "expose_addr") and ("ptr" in q):
                    chk.violation("C17.R2", "addr|%s" % fn["q"], "%s observes an address" % q, file, t["ln"], fn["q"], None, cfg)
                if q.endswith("fmt::Pointer>::fmt") or (name == "fmt" and any(a.startswith(("&*const", "&*mut", "&core::ptr::NonNull")) for a in t["arg_tys"][:1])):
                    chk.violation("C17.R2", "fmtptr|%s" % fn["q"], "a pointer is formatted (%s)" % q, file, t["ln"], fn["q"], None, cfg)
                if name in ("cmp", "partial_cmp", "lt", "le", "gt", "ge", "hash") and any(a.startswith(("&*const", "&*mut", "&core::ptr::NonNull", "*const", "*mut")) for a in t["arg_tys"][:1]):
                    chk.violation("C17.R2", "ptrord|%s" % fn["q"], "%s applied to a pointer" % q, file, t["ln"], fn["q"], None, cfg)
                # R3 / R4
                if in_lru:
                    if name in ("hash_one", "build_hasher", "finish") and ("hash" in q.lower()):
                        # the KeyRef/KeyWrapper Hash impls only forward to K::hash with the map's own hasher state
                        chk.violation("C17.R3", "hash|%s|%s" % (fn["q"], name), "%s computes a hash value in an LRU-family module" % q, file, t["ln"], fn["q"], None, cfg)
                    if any(x in q for x in ("std::time::", "SystemTime", "Instant::", "rand::", "getrandom")):
                        chk.violation("C17.R4", "ambient|%s|%s" % (fn["q"], name), "%s: clock/random source in an LRU-family module" % q, file, t["ln"], fn["q"], None, cfg)
                if in_lru and not is_drop:
                    for ai, aty in enumerate(t["arg_tys"]):
                        if not hash_container(aty) or node_map(aty) or name in ORDER_FREE:
                            continue
                        n_hc += 1
                        org = origin(b, t["args"][ai])
                        if org == "param":
                            chk.ob("C17.R5", "%s:%s|%s|%s" % (cfg, owner["q"], name, aty[:40]), "the caller's own %s is consumed by %s" % (aty, name))
                        else:
                            chk.violation("C17.R5", "%s|%s|%s" % (owner["q"], name, aty[:40]),
                                          "%s passes a %s that %s to %s: a hash container built inside the crate is consumed in an order that depends on the hasher" % (owner["q"], aty, org, q),
                                          file, t["ln"], fn["q"], None, cfg)
                if file.startswith("src/lfu/wtinylfu") and (name == "hash_key" or (name in ("hash_one", "build_hasher", "finish", "hash") and "hash" in q.lower() and not t.get("exp"))):
                    chk.violation("C17.R3", "wtinylfu-hash|%s|%s" % (fn["q"], name), "W-TinyLFU computes a hash value itself (%s): outside TinyLFU a decision must not see hash bits" % q, file, t["ln"], fn["q"], None, cfg)
        chk.floor("C17.R1", "calls scanned in %s" % cfg, n_calls, 1000)
        chk.floor("C17.R1", "allowed drain site in Drop (%s)" % cfg, n_drop, 1)
        chk.floor("C17.R5", "caller-supplied hash containers consumed in %s" % cfg, n_hc, 2)
        chk.ob("C17.R2", cfg + ":casts", "no pointer->integer cast among all cast rvalues; %d pointer equality tests (allowed)" % n_cmp)
        chk.ob("C17.R3", cfg + ":hash", "no hash value computed in %s" % (LRU_FILES,))
        chk.ob("C17.R4", cfg + ":ambient", "no clock/random call in the LRU-family modules")
