"""C20 - SampledLFU cost accounting is exact: all-writers delta pairing of `used` against `key_costs`."""
from .lib import api
from .lib.absint import fmt_val, fmt_loc, subterms
from .lib import lin
from .lib.facts import AnalysisError
from .lib.routing import outer_enters

LEVEL = "other"
EXPLANATION = (
    "Inductive invariant used == sum(key_costs), decided per path: for every method of SampledLFU (both configurations) every acyclic path "
    "of the inlined MIR is enumerated; the change of the map's cost sum on the path is computed symbolically from its mutation events "
    "(insert: +new - previous-if-present, remove: -removed, in-place write through get_mut: +new - old, clear: sum := 0) and must equal, as "
    "a linear expression, the change of the `used` field on that path (clear: used := 0). `used` and `key_costs` have no writers outside "
    "these methods (all-writers over the crate). room_left's return value must be max_cost.load() - used - cost; update*/remove* report "
    "exactly the presence outcome of their lookup; increment/update/remove delegate to their *_hashed_key twins with hash_key(k). "
    "R8: every constructor installs the sample size and budget it is given (used = 0). "
    "i64 overflow of cost sums is an assumption (A-cost); fill_sample's content is checked only structurally."
)
TRUSTED_BASE = ["MIR facts", "generic HashMap model (insert returns the previous value iff present; get_mut hands out the slot)", "A-cost: cost sums fit in i64"]

ADT = "lfu::sampled::SampledLFU"


def run(cx, chk):
    chk.rule("C20.R1", "delta pairing: on every path, change of `used` == change of the sum of key_costs (as linear expressions)")
    chk.rule("C20.R1w", "all-writers: used / key_costs are written only inside SampledLFU methods")
    chk.rule("C20.R2", "room_left returns max_cost.load() - (used + cost)")
    chk.rule("C20.R3", "update*/remove* report exactly whether the key was tracked (and its recorded cost)")
    chk.rule("C20.R5", "fill_sample: unchanged when already long enough; otherwise only pushes (key, cost) pairs read from key_costs (iterated without an item-dropping adapter: filter, filter_map, skip, skip_while, step_by), re-testing len >= samples after every push")
    chk.rule("C20.R7", "update_max_cost installs the given budget on every path (room_left is computed from it, also when it is below the recorded sum); nothing else writes max_cost")
    chk.rule("C20.R6", "clear empties the tracker unconditionally: every path clears key_costs and sets used to 0 (costs are signed, so `used == 0` does not mean nothing is tracked)")
    chk.rule("C20.R8", "constructors install what they are given: samples = the usize argument (one common constant when there is none), max_cost = the i64 argument, used = 0")
    chk.rule("C20.R4", "increment/update/remove delegate to the *_hashed_key twin with hash_key(k)")
    for cfg, F in cx.cfgs():
        methods = [f for f in F.doc["fns"] if f["kind"] == "AssocFn" and (F.impl_of(f) or {}).get("self_head") == ADT]
        chk.floor("C20.R1", "SampledLFU methods in %s" % cfg, len(methods), 15)
        n_mut = 0
        for f in methods:
            if not f.get("has_self"):
                continue
            paths = cx.paths(cfg, f["path"])
            ok = True
            for p in paths:
                r = check_path(F, f, p)
                if r is None:
                    continue
                n_mut += 1
                good, msg, ln = r
                if not good:
                    ok = False
                    chk.violation("C20.R1", "%s|%s" % (f["q"], msg.split(":")[0]), "%s: %s" % (f["q"], msg), f["span"]["file"], ln or f["span"]["lo"], f["q"], None, cfg)
            if ok:
                chk.ob("C20.R1", "%s:%s" % (cfg, f["q"]), "delta pairing holds on %d paths" % len(paths))
        chk.floor("C20.R1", "mutating paths in %s" % cfg, n_mut, 8)
        writers(chk, cfg, F)
        room_left(cx, chk, cfg, F)
        reports(cx, chk, cfg, F)
        siblings(cx, chk, cfg, F)
        fill_sample(cx, chk, cfg, F)
        clear_total(cx, chk, cfg, F)
        budget(cx, chk, cfg, F)
        constructors(cx, chk, cfg, F)


def constructors(cx, chk, cfg, F):
    """C20.R8: what a constructor is given is what the tracker works with.  Slots by type: the one usize argument is the sample size, the
    one i64 argument the budget."""
    n = 0
    defaults = {}
    for f in F.doc["fns"]:
        if not (f["kind"] == "AssocFn" and (F.impl_of(f) or {}).get("self_head") == ADT and not f.get("has_self")):
            continue
        if (f.get("output") or {}).get("n") != ADT:
            continue
        us = [i + 1 for i, t in enumerate(f["inputs"]) if t == {"k": "prim", "n": "usize"}]
        i64s = [i + 1 for i, t in enumerate(f["inputs"]) if t == {"k": "prim", "n": "i64"}]
        if len(us) > 1 or len(i64s) != 1:
            raise AnalysisError("C20.R8: constructor %s has an unexpected signature %s" % (f["q"], f["sig"]))
        ok = True

        def bad(what, msg):
            nonlocal ok
            if ok:
                chk.violation("C20.R8", "%s|%s" % (f["q"], what), "%s: %s" % (f["q"], msg), f["span"]["file"], f["span"]["lo"], f["q"], None, cfg)
            ok = False
        for p in cx.paths(cfg, f["path"]):
            rv = p.ret
            if not (isinstance(rv, tuple) and rv[0] == "agg" and rv[1] == "adt" and rv[2][0] == ADT):
                raise AnalysisError("C20.R8: %s does not return a SampledLFU aggregate: %s" % (f["q"], fmt_val(rv)[:80]))
            v = dict(zip(rv[4], rv[3]))
            n += 1
            if us:
                if v.get("samples") != ("param", us[0], False):
                    bad("samples", "the tracker is built with sample size %s instead of the `samples` argument: fill_sample stops at a different length than configured" % fmt_val(v.get("samples"))[:60])
            else:
                defaults.setdefault(v.get("samples"), []).append(f)
            if v.get("used") != ("const", "i64", "0"):
                bad("used", "a new tracker starts with used = %s" % fmt_val(v.get("used"))[:60])
            mc = v.get("max_cost")
            ev = [e for e in p.events if e["ev"] == "call" and isinstance(mc, tuple) and mc[0] == "call" and e.get("id") == mc[1]]
            if not (ev and (ev[0]["q"] or "").endswith("Atomic::new") and ev[0]["args"] and ev[0]["args"][0] == ("param", i64s[0], False)):
                bad("max_cost", "the budget installed (%s) is not the `max_cost` argument" % fmt_val(mc)[:60])
        if ok:
            chk.ob("C20.R8", "%s:%s" % (cfg, f["q"]), "samples, max_cost and used = 0 installed as given")
    if len(defaults) > 1 or any(not (isinstance(k, tuple) and k[0] == "const") for k in defaults):
        common = max(defaults, key=lambda k: len(defaults[k]))
        for k, fs in defaults.items():
            if k != common or not (isinstance(k, tuple) and k[0] == "const"):
                for f in fs:
                    chk.violation("C20.R8", "%s|default-samples" % f["q"], "%s: default sample size %s differs from its sibling constructors (%s)" % (f["q"], fmt_val(k)[:40], fmt_val(common)[:40]),
                                  f["span"]["file"], f["span"]["lo"], f["q"], None, cfg)
    chk.floor("C20.R8", "constructor paths in %s" % cfg, n, 6)


def budget(cx, chk, cfg, F):
    f = F.find(ADT + "::update_max_cost")
    ok = True
    n = 0
    for p in cx.paths(cfg, f["path"]):
        n += 1
        st = [e for e in p.events if e["ev"] == "call" and (e["q"] or "").split("::")[-1] in ("store", "swap") and e["args"]
              and isinstance(e["args"][0], tuple) and e["args"][0][0] == "ref" and self_field(e["args"][0][1], "max_cost")]
        st += [e for e in p.events if e["ev"] == "store" and self_field(e["loc"], "max_cost")]
        vals = [(e["args"][1] if e["ev"] == "call" else e["val"]) for e in st]
        if len(st) != 1 or vals[0] != ("param", 2, False):
            ok = False
            chk.violation("C20.R7", "update_max_cost|path", "a path of SampledLFU::update_max_cost %s: the tracker keeps answering room_left with a stale budget" % (
                "does not store the new max cost" if not st else "stores %s instead of the argument" % fmt_val(vals[0])[:50]), f["span"]["file"], f["span"]["lo"], f["q"], None, cfg)
            break
    if ok:
        chk.ob("C20.R7", cfg + ":update_max_cost", "max_cost := argument on all %d paths" % n)
    # all writers of max_cost
    for b in F.doc["bodies"]:
        fn = F.fns[b["path"]]
        for blk in b["blocks"]:
            t = blk["t"]
            if t["k"] == "call" and (t["f"].get("q") or "").startswith("core::sync::atomic::Atomic") and (t["f"].get("q") or "").split("::")[-1] in ("store", "swap", "fetch_add", "fetch_sub", "compare_exchange"):
                a0 = t["args"][0] if t["args"] else {}
                nm = None
                # receiver provenance: &self.max_cost
                for bl2 in b["blocks"]:
                    for s_ in bl2["s"]:
                        if s_["k"] == "assign" and a0.get("p") and s_["p"]["l"] == a0["p"]["l"] and s_["r"]["k"] == "ref":
                            nm = [e["n"] for e in s_["r"]["p"]["p"] if isinstance(e, dict) and "n" in e]
                if nm and nm[-1] == "max_cost" and not fn["q"].endswith("::update_max_cost"):
                    chk.violation("C20.R7", "writer|" + fn["q"], "%s writes max_cost" % fn["q"], fn["span"]["file"], t["ln"], fn["q"], None, cfg)


def clear_total(cx, chk, cfg, F):
    f = F.find(ADT + "::clear")
    ok = True
    n = 0
    for p in cx.paths(cfg, f["path"]):
        n += 1
        cleared = [e for e in p.events if e["ev"] == "call" and e.get("hm") == "clear" and e["recv"][2][-1:] == ("key_costs",)]
        zeroed = [e for e in p.events if e["ev"] == "store" and self_field(e["loc"], "used") and e["val"][0] == "const" and str(e["val"][2]) == "0"]
        if not cleared or not zeroed:
            ok = False
            chk.violation("C20.R6", "clear|partial", "a path of SampledLFU::clear returns without %s: entries stay tracked after clear" % (
                "clearing key_costs" if not cleared else "resetting used"), f["span"]["file"], f["span"]["lo"], f["q"], None, cfg)
            break
    if ok:
        chk.ob("C20.R6", cfg + ":clear", "key_costs.clear() and used = 0 on all %d paths" % n)


def self_field(loc, name):
    return loc[0] == "H" and isinstance(loc[1], tuple) and loc[1][0] == "param" and loc[1][1] == 1 and loc[2] == (name,)


def check_path(F, f, p):
    """None if the path mutates neither used nor key_costs"""
    used0 = None
    used_final = None
    dmap = {}
    cleared = False
    touched = False
    ln = None
    for e in p.events:
        if e["ev"] == "store" and self_field(e["loc"], "used"):
            used_final = e["val"]
            touched = True
            ln = e.get("ln")
        elif e["ev"] == "call" and e.get("generic") and e["recv"][0] == "H" and e["recv"][2][-1:] == ("key_costs",):
            hm = e["hm"]
            if hm == "insert":
                touched = True
                ln = ln or e.get("ln")
                lin.lin(e["value"], 1, dmap)
                if e["present"]:
                    lin.lin(e["old"], -1, dmap)
            elif hm == "remove" and e["present"]:
                touched = True
                ln = ln or e.get("ln")
                dmap[("load", e["slot"], 0)] = dmap.get(("load", e["slot"], 0), 0) - 1
            elif hm == "clear":
                touched = True
                cleared = True
                ln = ln or e.get("ln")
        elif e["ev"] == "call" and e.get("hm") == "clear" and e["recv"][2][-1:] == ("key_costs",):
            touched = True
            cleared = True
        elif e["ev"] == "store" and e["loc"][0] == "H" and isinstance(e["loc"][1], tuple) and e["loc"][1][0] == "mapslot":
            touched = True
            ln = ln or e.get("ln")
            lin.lin(e["val"], 1, dmap)
            dmap[("load", e["loc"], 0)] = dmap.get(("load", e["loc"], 0), 0) - 1
    for e in p.events:
        if e["ev"] == "replace" and e["loc"][0] == "H" and isinstance(e["loc"][1], tuple) and e["loc"][1][0] == "mapslot":
            touched = True
            lin.lin(e["new"], 1, dmap)
            dmap[("load", e["loc"], 0)] = dmap.get(("load", e["loc"], 0), 0) - 1
        elif e["ev"] == "swap":
            for a, va, vb in ((e["a"], e["va"], e["vb"]), (e["b"], e["vb"], e["va"])):
                if a[0] == "H" and isinstance(a[1], tuple) and a[1][0] == "mapslot":
                    touched = True
                    lin.lin(vb, 1, dmap)
                    dmap[("load", a, 0)] = dmap.get(("load", a, 0), 0) - 1
    if not touched:
        return None
    used_init = ("load", ("H", ("param", 1, True), ("used",)), 0)
    if cleared:
        if used_final is None or lin.norm(lin.lin(used_final)) != {}:
            return (False, "clear: key_costs is cleared but used is not reset to 0 on the same path", ln)
        return (True, "", ln)
    du = lin.sub(lin.lin(used_final), lin.lin(used_init)) if used_final is not None else {}
    # loads of the same slot at different epochs denote the value before this path's own write: normalise epochs
    du = _norm_epochs(du)
    dm = _norm_epochs(lin.norm(dmap))
    if du != dm:
        return (False, "delta mismatch: used changes by [%s] but the recorded costs change by [%s]" % (lin.fmt(du, fmt_val), lin.fmt(dm, fmt_val)), ln)
    return (True, "", ln)


def _norm_epochs(d):
    out = {}
    for k, c in d.items():
        if isinstance(k, tuple) and k[0] == "load":
            k = ("load", k[1], 0)
        out[k] = out.get(k, 0) + c
    return lin.norm(out)


def writers(chk, cfg, F):
    n = 0
    for b in F.doc["bodies"]:
        fn = F.fns[b["path"]]
        owner = fn
        while owner.get("kind") == "Closure":
            owner = F.fns[owner["parent"]]
        inside = (F.impl_of(owner) or {}).get("self_head") == ADT
        for blk in b["blocks"]:
            for s in blk["s"]:
                if s["k"] != "assign":
                    continue
                for e in s["p"]["p"]:
                    if isinstance(e, dict) and e.get("of") == ADT and e.get("n") in ("used", "key_costs"):
                        n += 1
                        if not inside:
                            chk.violation("C20.R1w", "%s|%s" % (fn["q"], e["n"]), "%s is written outside SampledLFU's methods" % e["n"], fn["span"]["file"], s["ln"], fn["q"], None, cfg)
    chk.ob("C20.R1w", cfg + ":writers", "%d stores to used/key_costs, all inside SampledLFU methods" % n)


def room_left(cx, chk, cfg, F):
    f = F.find(ADT + "::room_left")
    for p in cx.paths(cfg, f["path"]):
        d = lin.norm(lin.lin(p.ret))
        atoms = {k: c for k, c in d.items()}
        used = ("load", ("H", ("param", 1, True), ("used",)), 0)
        cost = ("param", 2, False)
        loads = [k for k in atoms if isinstance(k, tuple) and k[0] == "call" and k[2].endswith("::load")]
        ok = len(atoms) == 3 and atoms.get(used) == -1 and atoms.get(cost) == -1 and len(loads) == 1 and atoms[loads[0]] == 1
        if ok:
            # the atomic that is loaded must be self.max_cost
            ev = [e for e in p.events if e["ev"] == "call" and e.get("id") == loads[0][1]]
            a0 = ev[0]["args"][0] if ev else None
            ok = isinstance(a0, tuple) and a0[0] == "ref" and a0[1][0] == "H" and a0[1][2] == ("max_cost",)
        if ok:
            chk.ob("C20.R2", cfg + ":room_left", "returns max_cost.load() - used - cost", {"ret": fmt_val(p.ret)})
        else:
            chk.violation("C20.R2", "room_left", "room_left returns %s, not max_cost - (used + cost)" % fmt_val(p.ret), f["span"]["file"], f["span"]["lo"], f["q"], None, cfg)


def reports(cx, chk, cfg, F):
    for name, kind in (("update_hashed_key", "bool"), ("remove_hashed_key", "opt")):
        f = F.find(ADT + "::" + name)
        ok = True
        for p in cx.paths(cfg, f["path"]):
            look = [e for e in p.events if e["ev"] == "call" and e.get("generic") and e["hm"] in ("get_mut", "remove", "get")]
            if len(look) != 1:
                chk.undecide("C20.R3", f["q"], "expected exactly one lookup on the path, found %d" % len(look))
                continue
            present = look[0]["present"]
            rv = p.ret
            if kind == "bool":
                got = rv == ("const", "bool", "1") if isinstance(rv, tuple) and rv[0] == "const" else None
                if got is None or got != present:
                    ok = False
                    chk.violation("C20.R3", name, "%s returns %s on a path where the key is %s" % (name, fmt_val(rv), "tracked" if present else "not tracked"),
                                  f["span"]["file"], f["span"]["lo"], f["q"], None, cfg)
            else:
                var = rv[2][1] if isinstance(rv, tuple) and rv[0] == "agg" else None
                good = (var == "Some") == present
                if good and present:
                    pay = rv[3][0]
                    good = isinstance(pay, tuple) and pay[0] == "load" and pay[1] == look[0]["slot"]
                if not good:
                    ok = False
                    chk.violation("C20.R3", name, "%s returns %s on a path where the key is %s" % (name, fmt_val(rv), "tracked" if present else "not tracked"),
                                  f["span"]["file"], f["span"]["lo"], f["q"], None, cfg)
        if ok:
            chk.ob("C20.R3", "%s:%s" % (cfg, name), "reports the lookup outcome")


def siblings(cx, chk, cfg, F):
    for name in ("increment", "update", "remove"):
        f = F.find(ADT + "::" + name)
        twin = ADT + "::" + name + "_hashed_key"
        for p in cx.paths(cfg, f["path"]):
            ent = outer_enters(p, lambda e: e["q"] == twin)
            good = len(ent) == 1
            if good:
                a = ent[0]["args"][1]
                good = isinstance(a, tuple) and a[0] == "call" and a[2].endswith("hash_key")
                if good:
                    hk = [e for e in p.events if e["ev"] == "call" and e.get("id") == a[1]]
                    good = bool(hk) and hk[0]["args"][1] == ("param", 2, False)
            if good:
                chk.ob("C20.R4", "%s:%s" % (cfg, name), "delegates to %s(hash_key(k), ..)" % twin.split("::")[-1])
            else:
                chk.violation("C20.R4", name, "%s does not delegate to %s with hash_key(key)" % (name, twin), f["span"]["file"], f["span"]["lo"], f["q"], None, cfg)


DROPPING_ADAPTERS = ("filter", "filter_map", "skip", "skip_while", "step_by")


def fill_sample(cx, chk, cfg, F):
    f = F.find(ADT + "::fill_sample")
    PAIRS = ("ref", ("L", 0, 2, ()))
    SAMPLES = ("load", ("H", ("param", 1, True), ("samples",)), 0)
    ok = True

    def bad(what, msg, ln=None):
        nonlocal ok
        ok = False
        chk.violation("C20.R5", "fill_sample|" + what, "fill_sample: " + msg, f["span"]["file"], ln or f["span"]["lo"], f["q"], None, cfg)
    n = 0
    for p in cx.paths(cfg, f["path"]):
        n += 1
        if p.ret != ("param", 2, False):
            bad("ret", "returns %s instead of the (extended) input vector" % fmt_val(p.ret)[:60])
        evs = p.events
        muts = [(i, e) for i, e in enumerate(evs) if e["ev"] == "call" and e["args"] and e["args"][0] == PAIRS and (e["q"] or "").split("::")[-1] not in ("len", "is_empty", "capacity", "iter", "as_slice", "deref", "as_ref", "borrow")]
        lens = {}
        views = set()   # shared slice views of the input vector (`&pairs` passed as `&[_]`)
        for i, e in enumerate(evs):
            if e["ev"] != "call" or not e["args"]:
                continue
            nm = (e["q"] or "").split("::")[-1]
            if e["args"][0] == PAIRS and nm in ("deref", "as_slice", "as_ref", "borrow"):
                views.add(("call", e["id"], e["q"]))
            if ((e["q"] or "").endswith("Vec::len") and e["args"][0] == PAIRS) or (nm == "len" and e["args"][0] in views):
                lens[("call", e["id"], e["q"])] = i
        tests = []   # (event index, truth of len >= samples)
        for i, e in enumerate(evs):
            if e["ev"] == "branch" and "outcome" in e and isinstance(e.get("cond"), tuple) and e["cond"][0] == "bin":
                c = e["cond"]
                o = e["outcome"]
                t = ("0" in [str(x) for x in o[1]]) if isinstance(o, tuple) else str(o) not in ("0", "false")
                for a, b, op in ((c[2], c[3], c[1]), (c[3], c[2], {"Lt": "Gt", "Gt": "Lt", "Le": "Ge", "Ge": "Le"}.get(c[1], c[1]))):
                    if a in lens and b == SAMPLES and op in ("Ge", "Lt"):
                        tests.append((i, lens[a], (op == "Ge") == t))
        for e in evs:
            # "until the sample size is reached": every tracked pair is a candidate. An adapter that drops items of the key_costs
            # iterator (`take` only bounds the count and is fine) lets the sample stop short although tracked pairs remain.
            if e["ev"] == "call" and (e["q"] or "").startswith("core::iter::Iterator::") and (e["q"] or "").split("::")[-1] in DROPPING_ADAPTERS:
                bad("dropping-adapter|" + e["q"].split("::")[-1], "the key_costs iterator goes through Iterator::%s, which skips tracked (key, cost) pairs: the sample can end "
                    "short of `samples` although tracked pairs remain" % e["q"].split("::")[-1], e.get("ln"))
        if not tests or tests[0][0] > (muts[0][0] if muts else len(evs)):
            bad("no-initial-test", "the input is extended without first testing pairs.len() >= samples")
            continue
        if tests[0][2] and muts:
            bad("mutates-when-full", "the input is modified although it already holds at least `samples` pairs", muts[0][1].get("ln"))
        for k, (i, e) in enumerate(muts):
            name = (e["q"] or "").split("::")[-1]
            if name != "push":
                bad("not-push", "the input is extended with Vec::%s: pairs must be appended one at a time with the length re-tested after each (an unbounded bulk append can exceed the sample size)" % name, e.get("ln"))
                continue
            item = e["args"][1]
            src_ok = any(t[0] == "call" and "Iter" in (t[2] or "") and t[2].endswith("::next") for t in subterms(item))
            if not src_ok:
                bad("push-source", "a pushed pair (%s) is not read from the key_costs iterator" % fmt_val(item)[:60], e.get("ln"))
            nxt = muts[k + 1][0] if k + 1 < len(muts) else len(evs)
            after = [t for t in tests if i < t[1] and t[0] < nxt]
            if not after:
                bad("no-retest", "after pushing a pair the length is not re-tested against samples before the next push / the return", e.get("ln"))
            elif after[0][2] and k + 1 < len(muts):
                bad("push-after-full", "a pair is pushed after the sample size was reached", muts[k + 1][1].get("ln"))
    if ok:
        chk.ob("C20.R5", cfg + ":fill_sample", "%d paths: push-only, length re-tested after every push" % n)
