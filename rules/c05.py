"""C05 - totality: constructors validate, and no operation ever panics.  The panic-site ledger."""
import json
import os
import re

from .lib import api, absint, ranges, composite
from .lib.ranges import rng, Ctx, MEM, TYMAX, TYMIN
from .lib.routing import cond_facts, SELF
from .lib.absint import fmt_val, fmt_loc, subterms
from .lib.facts import AnalysisError, VERIF

LEVEL = "other"
EXPLANATION = (
    "Panic-site ledger. Every operation that can panic - Option/Result unwrap/expect, MIR Assert terminators (arithmetic overflow with "
    "overflow checks on, division/remainder by zero, array bounds), Index/IndexMut calls on Vec/slices, explicit panics - that is reachable "
    "from an exported function or trait method is an obligation, in both feature configurations. Each occurrence on each acyclic path of "
    "the fully inlined MIR is judged with the path's own facts: an unwrap is discharged when the value is Some/Ok on that path (after the "
    "sound pruning rules P1-P5 of the interpreter: own-key lookups hit, one-partition, room/emptiness facts under the list invariant), by the "
    "all-writers invariant 'builder option fields are always Some', or because the Err path was excluded by a dominating validation; an "
    "arithmetic assert by interval evaluation of its operands (constants, lengths and configured sizes <= 2^48 by A-mem, field invariants "
    "checked elsewhere, comparison facts on the path such as d >= p false before p - d, Range items); an index by the masked-index rule "
    "against the constructor-agreement invariants of Bloom and CountMinSketch (mask/size = W - 1 and storage length W >> c built from the same "
    "W, W >= 2^c). A site no rule discharges is a violation unless it is in the residual table rules/pl_residual.json (one justified entry per "
    "site key). R2: every successful constructor path carries the validation of each configuration scalar (NaN-rejecting for the ratios: an "
    "ordered comparison evaluated true), error paths report the matching variant with the offending value. R3/R4: sibling constructors return "
    "the same error variants; the ledger's site sets of functions compiled in both configurations agree. Not decided: allocation failure, "
    "i64 cost overflow (A-cost), termination, panics raised by user code (C18)."
    " R5: no builder method replaces a field it was not asked to set, so finalize validates what the caller configured (engine of C01.R8)."
)
TRUSTED_BASE = ["MIR at -Coverflow-checks=on", "A-mem: sizes fit in memory (<= 2^48)", "A-count: unit-step counters do not wrap", "A-cost: cost sums fit in i64",
                "A-clock: the system clock is not before the Unix epoch (std sketch seeding)", "rules/pl_residual.json (justified residual sites)"]

_IDS = re.compile(r"[#@]\d+")
RESIDUAL = os.path.join(VERIF, "rules", "pl_residual.json")


def shape(v):
    return _IDS.sub("", fmt_val(v))[:90]


def run(cx, chk):
    for rid, txt in (("C05.R1", "ledger: every reachable panic-capable site is discharged on every path (or is a justified residual)"),
                     ("C05.R1i", "constructor-agreement invariants of Bloom / CountMinSketch that the index discharges rely on"),
                     ("C05.R2", "validation present, NaN-rejecting, and error paths report the matching variant with the offending value"),
                     ("C05.R3", "sibling constructors return the same error variants"),
                     ("C05.R4", "cross-configuration agreement of the ledger for functions compiled in both builds"),
                     ("C05.R5", "what finalize validates is what the caller configured: no builder method replaces a field it was not asked to set (engine of C01.R8)")):
        chk.rule(rid, txt)
    from .lib import composite as _composite
    for cfg, F in cx.cfgs():
        _composite.builder_setters(cx, chk, cfg, F, "C05.R5")
    residual = json.load(open(RESIDUAL))["sites"] if os.path.exists(RESIDUAL) else {}
    used_res = set()
    per_cfg = {}
    for cfg, F in cx.cfgs():
        ranges.CONSTS.update(named_consts(F))
        for a in F.doc["adts"]:
            for v in a["variants"]:
                for fld in v["fields"]:
                    if fld["tt"].get("k") == "array":
                        ln_ = str(fld["tt"].get("len", ""))
                        n_ = int(ln_) if ln_.isdigit() else ranges.CONSTS.get(ln_.split("::")[-1])
                        if n_ is not None:
                            ranges.ARRAYS[fld["n"]] = n_
        always_some = builder_options(F)
        inv_ok = invariants(cx, chk, cfg, F)
        sites = {}
        p_inv = p_invariant_holds(cx, cfg, F)
        for f in api.roots(F):
            for p in list(cx.paths(cfg, f["path"])) + list(cx.aborted(cfg, f["path"])):
                ptys = {i + 1: t.get("n") for i, t in enumerate(f.get("inputs", [])) if t.get("k") == "prim"}
                for i, e in enumerate(p.events):
                    j = judge(F, p, i, e, always_some, dict(inv_ok, p_inv=p_inv), ptys)
                    if j is None:
                        continue
                    key, okrule, detail = j
                    s = sites.setdefault(key, {"n": 0, "rules": set(), "bad": [], "ln": e.get("ln"), "fn": e.get("fn"), "roots": set(), "what": set()})
                    s["n"] += 1
                    if e["ev"] == "unwrap":
                        # what is unwrapped (callee / field), ids stripped: a position-independent way to name the site
                        s["what"].add(re.sub(r"[#@]\d+", "", shape_unwrap(e["val"])))
                    s["roots"].add(f["q"])
                    if okrule:
                        s["rules"].add(okrule)
                    else:
                        if len(s["bad"]) < 2:
                            s["bad"].append((detail, f["q"]))
                # paths that END in a certain panic (unwrap of a value that is None/Err on the path) are caught by judge(); nothing else to do
        per_cfg[cfg] = sites
        nsite = 0
        for key, s in sorted(sites.items()):
            nsite += 1
            g = F.fns.get(s["fn"]) or {"span": {"file": None, "lo": None}, "q": s["fn"]}
            if not s["bad"]:
                chk.ob("C05.R1", "%s:%s" % (cfg, "|".join(key)), "%s on %d path visits" % (",".join(sorted(s["rules"])), s["n"]),
                       {"site": list(key), "rules": sorted(s["rules"]), "visits": s["n"]})
                continue
            rk = "|".join(key)
            # residual entries name a site as function|kind|~<what is unwrapped> (position-independent) or function|kind|#ordinal
            alts = [rk] + ["%s|%s|~%s" % (key[0], key[1], w) for w in sorted(s["what"])]
            hit = [a for a in alts if a in residual]
            if hit:
                used_res.add(hit[0])
                chk.ob("C05.R1", "%s:%s" % (cfg, hit[0]), "DX residual: " + residual[hit[0]])
                continue
            detail, root = s["bad"][0]
            chk.violation("C05.R1", rk, "undischarged panic site in %s: %s (reachable from %s)" % (g["q"], detail, root),
                          g["span"]["file"], s["ln"], g["q"], ["root " + root], cfg)
        chk.floor("C05.R1", "panic-capable sites in %s" % cfg, nsite, 110)
        validation(cx, chk, cfg, F)
    cross_config(chk, per_cfg)
    for rk in residual:
        if rk not in used_res:
            chk.notes.append("unused residual entry: " + rk)
    chk.assumptions += ["A-mem", "A-count", "A-cost", "A-clock"]


def named_consts(F):
    """DEPTH etc: named integer constants and their values, read off the (driver-evaluated) constant operands of the MIR"""
    out = {}

    def walk(x):
        if isinstance(x, dict):
            if x.get("k") == "const" and "int" in x and isinstance(x.get("v"), str) and "::" in x["v"] and not x["v"][0].isdigit():
                try:
                    out[x["v"].split("::")[-1]] = int(x["int"])
                except ValueError:
                    pass
            for v in x.values():
                walk(v)
        elif isinstance(x, list):
            for v in x:
                walk(v)
    walk(F.doc["bodies"])
    return out


def builder_options(F):
    """field names f such that every construction of a *Builder struct sets f to Some(..) or copies it from the same field"""
    fields = {}
    for a in F.doc["adts"]:
        if a["name"].endswith("Builder") and a["kind"] == "Struct":
            for fld in a["variants"][0]["fields"]:
                if fld["ty"].startswith("core::option::Option<"):
                    fields.setdefault(fld["n"], True)
    builders = set(a["name"] for a in F.doc["adts"] if a["name"].endswith("Builder"))
    for b in F.doc["bodies"]:
        for blk in b["blocks"]:
            for s in blk["s"]:
                if s["k"] != "assign":
                    continue
                r = s["r"]
                if r["k"] == "agg" and r.get("ak") == "adt" and r.get("adt") in builders:
                    for name, o in zip(r["fields"], r["os"]):
                        if name not in fields:
                            continue
                        good = False
                        if o["k"] == "const" and "Some(" in str(o.get("v", "")):
                            good = True
                        if o["k"] in ("move", "copy"):
                            pr = o["p"]["p"]
                            # copied from `<builder>.same_field`, or a temporary that was just built as Some(..)
                            if pr and isinstance(pr[-1], dict) and pr[-1].get("n") == name and pr[-1].get("of") in builders:
                                good = True
                            elif not pr:
                                good = local_is_some(b, o["p"]["l"], name, builders)
                        if not good:
                            fields[name] = False
                # field stores through a reference
                pr = s["p"]["p"]
                if pr and isinstance(pr[-1], dict) and pr[-1].get("of") in builders and pr[-1].get("n") in fields and "deref" in pr:
                    fields[pr[-1]["n"]] = False
    return set(k for k, v in fields.items() if v)


def local_is_some(b, l, name=None, builders=(), depth=0):
    """every definition of local l is `Some(..)`, or a move/copy of `<builder>.<same field>` (or of a local that is)"""
    defs = 0
    for blk in b["blocks"]:
        for s in blk["s"]:
            if s["k"] == "assign" and s["p"]["l"] == l and not s["p"]["p"]:
                defs += 1
                r = s["r"]
                if r["k"] == "agg" and r.get("variant") == "Some":
                    continue
                if r["k"] == "use" and r["o"]["k"] == "const" and "Some(" in str(r["o"].get("v", "")):
                    continue
                if r["k"] == "use" and r["o"]["k"] in ("move", "copy"):
                    pr = r["o"]["p"]["p"]
                    if pr and isinstance(pr[-1], dict) and pr[-1].get("n") == name and pr[-1].get("of") in builders:
                        continue
                    if not pr and depth < 3 and local_is_some(b, r["o"]["p"]["l"], name, builders, depth + 1):
                        continue
                return False
        t = blk["t"]
        if t["k"] == "call" and t["d"]["l"] == l and not t["d"]["p"]:
            return False
    return defs > 0


# ------------------------------------------------------------------ judging one event
_ORD = {}


def site_key(F, e, kind, detail):
    """(function, kind, ordinal of the panic-capable terminator among the function's blocks): no line numbers, no operand text"""
    g = F.fns.get(e.get("fn"))
    fp = e.get("fn")
    k = (F.cfg, fp)
    if k not in _ORD:
        b = F.body(fp)
        m = {}
        n = 0
        if b is not None:
            for i, blk in enumerate(b["blocks"]):
                if blk["t"]["k"] in ("call", "assert"):
                    m[i] = n
                    n += 1
        _ORD[k] = m
    return ((g["q"] if g else str(fp)), kind, "#%s" % _ORD[k].get(e.get("bb"), "?"))


INV = {}


def p_invariant_holds(cx, cfg, F):
    """0 <= p <= size (C09.R1) is re-decided here because the `size - p` discharge depends on it"""
    from . import c09

    class Probe:
        bad = 0

        def ob(self, *a, **k):
            pass

        def floor(self, *a, **k):
            pass

        def violation(self, *a, **k):
            Probe.bad += 1
    Probe.bad = 0
    c09.writers(cx, Probe(), cfg, F)
    return Probe.bad == 0


def judge(F, p, i, e, always_some, inv_ok, ptys=None):
    INV.update(inv_ok)
    k = e["ev"]
    if k == "unwrap":
        key = site_key(F, e, e["q"].split("::")[-1], shape_unwrap(e["val"]))
        known = e.get("known")
        if known in ("Some", "Ok"):
            return key, "D-known(%s on this path)" % known, None
        v = e["val"]
        if known in ("None", "Err"):
            return key, None, "%s on a value that is %s on a feasible path: certain panic" % (e["q"].split("::")[-1], known)
        fld = option_field(v)
        if fld and fld in always_some:
            return key, "D3(builder field `%s` is always Some: all-writers)" % fld, None
        return key, None, "%s on %s whose variant is not established on the path" % (e["q"].split("::")[-1], fmt_val(v)[:70])
    if k == "assert":
        msg = e["msg"]
        ops = e.get("ops", [])
        key = site_key(F, e, msg, ";".join(shape(o) for o in ops)[:120])
        c = Ctx(p, i, ptys)
        cond = e.get("cond")
        if msg.startswith("Overflow("):
            op = msg[9:-1]
            ty = cond[4] if isinstance(cond, tuple) and cond[0] == "ovf" and len(cond) > 4 else None
            a, b = ops[0], ops[1]
            if op in ("Add", "Sub", "Mul"):
                if ty in ("i64", "isize", "i32") and "sampled" in (e.get("fn") or ""):
                    return key, "D12(A-cost)", None
                ra, rb = rng(a, c, ty), rng(b, c, ty)
                mx = TYMAX.get(ty, (1 << 64) - 1)
                mn = TYMIN.get(ty, 0)
                if op == "Add":
                    if ra[1] + rb[1] <= mx and ra[0] + rb[0] >= mn:
                        return key, "D-range(%s+%s<=max; %s)" % (hi(ra), hi(rb), ";".join(sorted(c.used))[:80]), None
                    if b == ("const", ty, "1") and is_counter(a):
                        return key, "D5(A-count: unit-step counter)", None
                    if ty == "u8" and nibble_add(p, i, c, a, b):
                        return key, "D13(nibble add: byte + (1 << s) where ((byte >> s) & 0x0f) <= 14 on this path and s <= 4: no carry out of the byte)", None
                    return key, None, "`%s + %s` may overflow %s (operand ranges [%s..%s] + [%s..%s])" % (shape(a), shape(b), ty, ra[0], hi(ra), rb[0], hi(rb))
                if op == "Sub":
                    rel = c.known_cmp(a, b)
                    if ra[0] >= rb[1]:
                        return key, "D-range(lo(a)=%s >= hi(b)=%s)" % (ra[0], hi(rb)), None
                    if rel & {"Ge", "Gt", "Eq"}:
                        return key, "D2(dominating comparison %s between the operands)" % sorted(rel), None
                    if (isinstance(a, tuple) and isinstance(b, tuple) and a[0] == "len" and b[0] == "len" and a[1] == b[1] and a[2] <= b[2]
                            and only_shrinks(p, i, a[1])):
                        return key, "D14(len(m) before - len(m) after: the map is only removed from on this path)", None
                    if field_pair(a, b) == ("size", "p") and INV.get("p_inv"):
                        return key, "D2(field invariant p <= size: C09.R1)", None
                    # a - 1 with a >= 1 from facts is covered by ranges (refine); power-of-two style `x - 1` with x = max(.., 2)
                    return key, None, "`%s - %s` may underflow (ranges [%s..] - [..%s], no dominating comparison)" % (shape(a), shape(b), ra[0], hi(rb))
                if op == "Mul":
                    if ra[1] * rb[1] <= mx:
                        return key, "D-range(product <= max)", None
                    return key, None, "`%s * %s` may overflow %s" % (shape(a), shape(b), ty)
            if op in ("Shl", "Shr"):
                bits = 64
                if isinstance(cond, tuple) and cond[0] == "bin" and cond[1] == "Lt" and isinstance(cond[3], tuple) and cond[3][0] == "const":
                    try:
                        bits = int(cond[3][2])
                    except (TypeError, ValueError):
                        pass
                rb = rng(b, c, None)
                if rb[1] < bits and rb[0] >= 0:
                    return key, "D1/D10(shift amount <= %s < %d; %s)" % (rb[1], bits, ";".join(sorted(c.used))[:80]), None
                return key, None, "shift amount %s may reach %d bits (range [%s..%s])" % (shape(b), bits, rb[0], hi(rb))
            return key, None, "unmodelled overflow assert %s" % msg
        if msg in ("DivisionByZero", "RemainderByZero"):
            d = ops[0]
            if isinstance(cond, tuple) and cond[0] == "bin" and cond[1] == "Eq" and str(cond[3][2] if isinstance(cond[3], tuple) else "") == "0":
                d = cond[2]     # the assert's message carries the dividend; the tested operand is the divisor
            elif isinstance(cond, tuple) and cond[0] == "const":
                return key, "D1(constant divisor, non-zero)", None
            rd = rng(d, c, None)
            if rd[0] >= 1:
                return key, "D1/D7(divisor >= %s; %s)" % (rd[0], ";".join(sorted(c.used))[:80]), None
            if "Ne" in c.known_cmp(d, ("const", "usize", "0")) or "Gt" in c.known_cmp(d, ("const", "usize", "0")):
                return key, "D2(divisor tested != 0)", None
            return key, None, "divisor %s may be zero" % shape(d)
        if msg == "BoundsCheck":
            ln_, ix = ops[0], ops[1]
            rl, ri = rng(ln_, c, None), rng(ix, c, None)
            if ri[1] < rl[0]:
                return key, "D9(index <= %s < len %s)" % (ri[1], rl[0]), None
            return key, None, "index %s (<= %s) is not shown below the length %s" % (shape(ix), hi(ri), shape(ln_))
        return key, None, "unmodelled assert %s" % msg
    if k == "call":
        q = e.get("q") or ""
        name = q.split("::")[-1]
        if name in ("index", "index_mut") and ("Vec" in q or "[T]" in q or "slice" in q):
            ix = e["args"][1]
            key = site_key(F, e, "index", shape(ix)[:100])
            return judge_index(F, p, i, e, key, inv_ok, ptys)
        if "panicking::panic" in q or "::panic_fmt" in q or q.endswith("unreachable_display") or "begin_panic" in q or "expect_failed" in q or "unwrap_failed" in q:
            key = site_key(F, e, "panic", name)
            return key, None, "explicit panic (%s)" % q
        if name in ("split_at", "split_at_mut", "copy_from_slice", "swap_remove", "remove", "insert", "swap", "borrow_mut", "borrow") and ("Vec" in q or "[T]" in q or "RefCell" in q):
            key = site_key(F, e, "panicking-api", q)
            return key, None, "call to %s, which panics on a bad index/state" % q
    return None


def field_pair(a, b):
    if isinstance(a, tuple) and isinstance(b, tuple) and a[0] == "load" and b[0] == "load" and a[1][0] == "H" and b[1][0] == "H" \
            and a[1][1] == b[1][1] and a[1][2][:-1] == b[1][2][:-1] and a[1][2] and b[1][2]:
        return (a[1][2][-1], b[1][2][-1])
    return None


def hi(r):
    return "MEM" if r[1] == MEM else ("2^64" if r[1] >= (1 << 63) else r[1])


def shape_unwrap(v):
    s = shape(v)
    return s[:70]


def option_field(v):
    if isinstance(v, tuple) and v[0] in ("load",):
        pr = v[1][3] if v[1][0] == "L" else v[1][2]
        names = [x for x in pr if isinstance(x, str)]
        return names[-1] if names else None
    if isinstance(v, tuple) and v[0] == "proj":
        names = [x for x in v[2] if isinstance(x, str)]
        return names[-1] if names else None
    return None


def is_counter(a):
    if isinstance(a, tuple) and a[0] == "load":
        pr = a[1][3] if a[1][0] == "L" else a[1][2]
        return bool(pr) and pr[-1] in ("w", "elem_num", "len", "p")
    return False


def has_mask(t, fld):
    """t == (X & load(..fld)) possibly wrapped in casts"""
    while isinstance(t, tuple) and t[0] == "cast":
        t = t[3]
    if isinstance(t, tuple) and t[0] == "bin" and t[1] == "BitAnd":
        for x in (t[2], t[3]):
            if isinstance(x, tuple) and x[0] == "load":
                pr = x[1][2] if x[1][0] == "H" else x[1][3]
                if pr and pr[-1] == fld:
                    return x
    return None


def _strip_casts(t):
    while isinstance(t, tuple) and t[0] == "cast":
        t = t[3]
    return t


def _elem(p, t):
    """(receiver location, index term) if t reads an element through Vec/slice index(_mut)"""
    t = _strip_casts(t)
    if isinstance(t, tuple) and t[0] == "load" and t[1][0] == "H" and isinstance(t[1][1], tuple) and t[1][1][0] == "call" and t[1][2] == ():
        ce = [e for e in p.events if e["ev"] == "call" and e.get("id") == t[1][1][1]]
        if ce and (ce[0]["q"] or "").split("::")[-1] in ("index", "index_mut") and len(ce[0]["args"]) == 2:
            return (ce[0]["args"][0], _strip_casts(ce[0]["args"][1]))
    return None


def only_shrinks(p, i, X):
    """no event before position i can have grown the map X: every modelled operation on it is a lookup or a removal, and it is not handed
    to an unmodelled function"""
    for e in p.events[:i]:
        if e.get("recv") == X and e.get("hm") not in ("remove", "get", "get_mut", "contains_key"):
            return False
        if e["ev"] == "call" and not e.get("hm") and any(isinstance(x, tuple) and x[0] == "ref" and x[1] == X for x in (e.get("args") or [])):
            return False
    return True


def nibble_add(p, i, c, a, b):
    """a + (1 << s) on a u8 cannot overflow when the path establishes ((a' >> s) & 0x0f) <= 14 for a read a' of the same element
    (nothing stored to it in between) and s <= 4: the selected nibble takes the increment without a carry"""
    b = _strip_casts(b)
    if not (isinstance(b, tuple) and b[0] == "bin" and b[1] == "Shl" and const_of(b[2]) == 1):
        return False
    s_ = _strip_casts(b[3])
    rs = rng(s_, c, None)
    if not (rs[0] >= 0 and rs[1] <= 4):
        return False
    ea = _elem(p, a)
    if ea is None:
        return False
    for cnd, tr, ev in cond_facts(p):
        if p.events.index(ev) >= i or not (isinstance(cnd, tuple) and cnd[0] == "bin"):
            continue
        for op, x, y in ((cnd[1], cnd[2], cnd[3]), ({"Lt": "Gt", "Gt": "Lt", "Le": "Ge", "Ge": "Le"}.get(cnd[1], cnd[1]), cnd[3], cnd[2])):
            k = const_of(y)
            if k is None:
                continue
            o = op if tr else {"Eq": "Ne", "Ne": "Eq", "Lt": "Ge", "Ge": "Lt", "Gt": "Le", "Le": "Gt"}.get(op)
            le14 = (o == "Lt" and k <= 15) or (o == "Le" and k <= 14) or (o == "Ne" and k == 15)
            if not le14:
                continue
            x = _strip_casts(x)
            if not (isinstance(x, tuple) and x[0] == "bin" and x[1] == "BitAnd"):
                continue
            m, sh = (x[3], x[2]) if const_of(x[3]) is not None else (x[2], x[3])
            if const_of(m) != 15:
                continue
            sh = _strip_casts(sh)
            if not (isinstance(sh, tuple) and sh[0] == "bin" and sh[1] == "Shr" and _strip_casts(sh[3]) == s_):
                continue
            eb = _elem(p, sh[2])
            if eb is not None and eb == ea:
                j = p.events.index(ev)
                if not any(e2["ev"] in ("store", "swap", "replace") for e2 in p.events[j:i]):
                    return True
    return False


def const_of(t):
    t = _strip_casts(t)
    if isinstance(t, tuple) and t[0] == "const":
        try:
            return int(t[2])
        except (TypeError, ValueError):
            return None
    return None


def judge_index(F, p, i, e, key, inv_ok, ptys=None):
    ix = e["args"][1]
    recv = e["args"][0]
    c = Ctx(p, i, ptys)
    t = ix
    while isinstance(t, tuple) and t[0] == "cast":
        t = t[3]
    rloc = recv[1] if isinstance(recv, tuple) and recv[0] == "ref" else None
    rproj = (rloc[2] if rloc and rloc[0] == "H" else (rloc[3] if rloc else ())) if rloc else ()
    rnames = [x for x in rproj if isinstance(x, str)]
    # Bloom: bitset[(idx >> 6)], idx = _ & self.size
    if rnames[-1:] == ["bitset"]:
        if isinstance(t, tuple) and t[0] == "bin" and t[1] == "Shr" and t[3] == ("const", "i32", "6") or (isinstance(t, tuple) and t[0] == "bin" and t[1] == "Shr" and str(t[3][2]) == "6"):
            m = has_mask(t[2], "size")
            if m is not None and m[1][0] == rloc[0] and m[1][1] == rloc[1] and (m[1][2][:-1] == rloc[2][:-1] if rloc[0] == "H" else True):
                if inv_ok.get("bloom"):
                    return key, "D9(masked index: (x & size) >> 6 < bitset.len() by the Bloom constructor-agreement invariant)", None
                return key, None, "masked index into bitset, but the Bloom constructor-agreement invariant does not hold"
        return key, None, "index %s into the doorkeeper bitset is not of the form (x & self.size) >> 6" % shape(ix)
    # CountMinRow: self.0[(i / 2)], i = _ & sketch.mask
    if rnames[-1:] == ["0"]:
        if isinstance(t, tuple) and t[0] == "bin" and ((t[1] == "Div" and str(t[3][2]) == "2") or (t[1] == "Shr" and str(t[3][2]) == "1")):
            m = has_mask(t[2], "mask")
            if m is not None:
                if inv_ok.get("sketch"):
                    return key, "D9(masked index: (x & mask) / 2 < row.len() by the CountMinSketch constructor-agreement invariant)", None
                return key, None, "masked index into a sketch row, but the CountMinSketch constructor-agreement invariant does not hold"
            # Debug::fmt: i in 0..len*2, index i/2
            inner = t[2]
            rr = rng(inner, c, None)
            for x in subterms(inner):
                pass
            it = iter_upper(p, inner, c)
            if it is not None and it[0] == "Mul2-of-len":
                return key, "D9(i / 2 with i < 2 * len of the same vector)", None
        return key, None, "index %s into a sketch row is not of the form (x & mask) / 2" % shape(ix)
    # vector collected from a range of known length
    ri = rng(t, c, None)
    src = c.p.st.store.get(rloc) if rloc is not None and c.p.st is not None else None
    n = collected_len(p, src)
    if n is not None and ri[1] < n:
        return key, "D9(index <= %s < %d = length of the collected range)" % (ri[1], n), None
    return key, None, "index %s into %s is not shown to be in range" % (shape(ix), fmt_val(recv)[:50])


def iter_upper(p, item, c):
    """recognise  item = next(range(0, len(v)*2)).0"""
    if isinstance(item, tuple) and item[0] == "proj" and isinstance(item[1], tuple) and item[1][0] == "call":
        e = c.calls.get(item[1][1])
        if e is not None and (e["q"] or "").endswith("Iterator>::next"):
            it = e["args"][0]
            v = it
            if isinstance(v, tuple) and v[0] == "ref" and p.st is not None:
                v = absint.Interp(None).read(p.st, v[1])
            for x in subterms(v) if isinstance(v, tuple) else []:
                if x[0] == "agg" and x[1] == "adt" and x[2][0].endswith("ops::Range"):
                    end = x[3][1]
                    if isinstance(end, tuple) and end[0] == "bin" and end[1] == "Mul" and str(end[3][2]) == "2" and isinstance(end[2], tuple) and end[2][0] == "call" and end[2][2].endswith("::len"):
                        return ("Mul2-of-len", end[2])
    return None


def collected_len(p, v):
    """length of a Vec built by collecting (a..b).map(..) with constant bounds"""
    if not (isinstance(v, tuple) and v[0] == "call" and v[2].endswith("collect")):
        return None
    calls = {e["id"]: e for e in p.events if e["ev"] == "call" and "id" in e}
    cur = calls.get(v[1])
    for _ in range(4):
        if cur is None:
            return None
        a0 = cur["args"][0]
        for x in subterms(a0) if isinstance(a0, tuple) else []:
            if x[0] == "agg" and x[1] == "adt" and x[2][0].endswith("ops::Range"):
                lo, hi_ = x[3]
                try:
                    l = int(lo[2])
                except (TypeError, ValueError):
                    return None
                h = ranges.CONSTS.get(str(hi_[2]).split("::")[-1]) if not str(hi_[2]).isdigit() else int(hi_[2])
                return None if h is None else h - l
        cur = calls.get(a0[1]) if isinstance(a0, tuple) and a0[0] == "call" else None
    return None


# ------------------------------------------------------------------ invariants of Bloom / CountMinSketch (constructor agreement)
class OpaqueHelpers(absint.DefaultPolicy):
    def inline(self, interp, fr, info):
        q = info["q"] or ""
        return not (q.endswith("::get_size") or q.endswith("::next_power_of_2") or q.endswith("calc_size_by_wrong_positives"))


def invariants(cx, chk, cfg, F):
    out = {"bloom": False, "sketch": False}
    # ---- Bloom::new
    f = F.find("lfu::tinylfu::bloom::Bloom::new")
    good = True
    why = []
    for p in cx.paths(cfg, f["path"], policy=OpaqueHelpers(), tag="inv"):
        rv = p.ret
        if not (isinstance(rv, tuple) and rv[0] == "agg" and rv[1] == "adt" and rv[2][0].endswith("Bloom")):
            good = False
            why.append("Bloom::new does not return a struct literal")
            continue
        v = dict(zip(rv[4], rv[3]))
        gs = [e for e in p.events if e["ev"] == "call" and (e["q"] or "").endswith("::get_size")]
        if len(gs) != 1:
            good = False
            why.append("Bloom::new does not size itself through get_size")
            continue
        W = ("proj", ("call", gs[0]["id"], gs[0]["q"]), ("0",))
        E = ("proj", ("call", gs[0]["id"], gs[0]["q"]), ("1",))
        if v.get("size") != ("bin", "Sub", W, ("const", "u64", "1")):
            good = False
            why.append("size field is %s, not W - 1" % fmt_val(v.get("size"))[:60])
        if v.get("shift") != ("bin", "Sub", ("const", "u64", "64"), E):
            good = False
            why.append("shift field is %s, not 64 - exponent" % fmt_val(v.get("shift"))[:60])
        bs = v.get("bitset")
        be = [e for e in p.events if e["ev"] == "call" and isinstance(bs, tuple) and bs[0] == "call" and e.get("id") == bs[1]]
        n = be[0]["args"][1] if be and len(be[0]["args"]) > 1 else None
        if not (be and be[0]["q"].endswith("from_elem") and n == ("bin", "Shr", ("cast", "IntToInt", "usize", W), ("const", "i32", "6"))):
            good = False
            why.append("bitset is %s with %s elements, not vec![0; W >> 6]" % (fmt_val(bs)[:40], fmt_val(n)[:60]))
    lem = get_size_lemma(F)
    if lem:
        good = False
        why.append(lem)
    if good and no_foreign_writers(cx, chk, cfg, F, "lfu::tinylfu::bloom::Bloom", ("bitset", "size", "shift", "set_locs"), ("lfu::tinylfu::bloom::Bloom::new",)):
        out["bloom"] = True
        chk.ob("C05.R1i", cfg + ":Bloom", "size = W-1, shift = 64-E, bitset = vec![0; W>>6], (W, E) = get_size(..) with W = 2^E >= 512")
    else:
        chk.violation("C05.R1i", "Bloom", "Bloom constructor-agreement invariant does not hold: %s" % "; ".join(why or ["a field is written outside the constructor"]),
                      f["span"]["file"], f["span"]["lo"], f["q"], None, cfg)
    # ---- CountMinSketch::new
    fs = [g for g in F.doc["fns"] if g["q"].endswith("CountMinSketch::new")]
    if len(fs) != 1:
        raise AnalysisError("CountMinSketch::new: %d candidates in %s" % (len(fs), cfg))
    f = fs[0]
    good = True
    why = []
    for p in cx.paths(cfg, f["path"], policy=OpaqueHelpers(), tag="inv"):
        rv = p.ret
        if not (isinstance(rv, tuple) and rv[0] == "agg" and rv[2][1] == "Ok"):
            continue
        sk = rv[3][0]
        v = dict(zip(sk[4], sk[3]))
        mask = v.get("mask")
        if not (isinstance(mask, tuple) and mask[:2] == ("bin", "Sub") and mask[3] == ("const", "u64", "1")):
            good = False
            why.append("mask is %s, not W - 1" % fmt_val(mask)[:60])
            continue
        W = mask[2]
        c = Ctx(p, len(p.events))
        rW = rng(W, c, "u64")
        if rW[0] < 2:
            good = False
            why.append("the sketch width W = %s can be %s: rows of W / 2 bytes would be empty (W must be >= 2)" % (fmt_val(W)[:60], rW[0]))
        rows = v.get("rows")
        rvals = rows[3] if isinstance(rows, tuple) and rows[0] == "agg" else ()
        if len(rvals) != ranges.CONSTS.get("DEPTH", 4):
            good = False
            why.append("rows has %d elements" % len(rvals))
        for r in rvals:
            inner = r[3][0] if isinstance(r, tuple) and r[0] == "agg" and r[3] else None
            be = [e for e in p.events if e["ev"] == "call" and isinstance(inner, tuple) and inner[0] == "call" and e.get("id") == inner[1]]
            n = be[0]["args"][1] if be and len(be[0]["args"]) > 1 else None
            if not (be and be[0]["q"].endswith("from_elem") and n == ("cast", "IntToInt", "usize", ("bin", "Div", W, ("const", "u64", "2")))):
                good = False
                why.append("a row is %s elements long, not W / 2" % fmt_val(n)[:60])
        # W must come out of next_power_of_2 (evenness for W >= 2)
        if not derives_from_call(p, W, "next_power_of_2"):
            good = False
            why.append("W is not derived from next_power_of_2")
    sk_adt = [a["name"] for a in F.doc["adts"] if a["name"].endswith("CountMinSketch")][0]
    if good and no_foreign_writers(cx, chk, cfg, F, sk_adt, ("mask", "rows"), (f["q"],)):
        out["sketch"] = True
        chk.ob("C05.R1i", cfg + ":CountMinSketch", "mask = W-1, every row = vec![0; W/2], W = next_power_of_2(n).max(2) >= 2")
    else:
        chk.violation("C05.R1i", "CountMinSketch", "CountMinSketch constructor-agreement invariant does not hold: %s" % "; ".join(why or ["a field is written outside the constructor"]),
                      f["span"]["file"], f["span"]["lo"], f["q"], None, cfg)
    return out


def derives_from_call(p, t, suffix, depth=0):
    calls = {e["id"]: e for e in p.events if e["ev"] == "call" and "id" in e}
    for x in subterms(t):
        if x[0] == "call":
            if x[2].endswith(suffix):
                return True
            e = calls.get(x[1])
            if e is not None and depth < 4 and any(derives_from_call(p, a, suffix, depth + 1) for a in e["args"] if isinstance(a, tuple)):
                return True
    return False


def get_size_lemma(F):
    """structural spot-check of the doubling loop the Bloom invariant relies on (W = 2^E >= 512)"""
    f = [b for b in F.doc["bodies"] if b["path"].endswith("bloom::get_size")]
    if not f:
        return "get_size not found"
    b = f[0]
    has_clamp = has_shl1 = has_inc = False
    for blk in b["blocks"]:
        for s in blk["s"]:
            if s["k"] != "assign":
                continue
            r = s["r"]
            if r["k"] == "bin" and r["op"] == "Lt" and r["b"]["k"] == "const" and r["b"].get("int") is not None and int(r["b"]["int"]) >= 64 and int(r["b"]["int"]) & (int(r["b"]["int"]) - 1) == 0:
                has_clamp = True
            if r["k"] == "bin" and r["op"] == "Shl" and r["b"]["k"] == "const" and r["b"].get("int") == "1":
                has_shl1 = True
            if r["k"] == "bin" and r["op"] in ("AddWithOverflow", "Add") and r["b"]["k"] == "const" and r["b"].get("int") == "1":
                has_inc = True
    if not (has_clamp and has_shl1 and has_inc):
        return "get_size no longer has the shape `clamp to a power of two >= 64; while size < n { size <<= 1; exponent += 1 }` (clamp=%s, doubling=%s, counting=%s)" % (has_clamp, has_shl1, has_inc)
    return None


def no_foreign_writers(cx, chk, cfg, F, adt, fields, allowed):
    ok = True
    for b in F.doc["bodies"]:
        fn = F.fns[b["path"]]
        if fn["q"] in allowed:
            continue
        for blk in b["blocks"]:
            for s in blk["s"]:
                if s["k"] == "assign":
                    pr = [e for e in s["p"]["p"] if isinstance(e, dict) and "f" in e]
                    if pr and pr[-1]["of"] == adt and pr[-1]["n"] in fields:
                        ok = False
            t = blk["t"]
            if t["k"] == "call" and "q" in t["f"]:
                q = t["f"]["q"]
                if q.split("::")[-1] in ("resize", "truncate", "push", "pop", "clear", "resize_with", "set_len", "drain", "swap_remove", "remove", "insert") and "Vec" in q:
                    # a length-changing Vec call on one of the fields: only harmful if reachable
                    for a in t["args"]:
                        if a["k"] in ("move", "copy") and any(isinstance(e, dict) and e.get("of") == adt and e.get("n") in fields for e in a["p"]["p"]):
                            if reachable(cx, cfg, F, b["path"]):
                                ok = False
    return ok


_REACH = {}


def reachable(cx, cfg, F, path):
    if cfg not in _REACH:
        seen = set()
        work = [f["path"] for f in api.roots(F)]
        while work:
            x = work.pop()
            if x in seen:
                continue
            seen.add(x)
            b = F.body(x)
            if b is None:
                continue
            for blk in b["blocks"]:
                t = blk["t"]
                if t["k"] == "call" and "def" in t["f"]:
                    r = t["f"].get("resolved")
                    work.append(r["def"] if r else t["f"]["def"])
                    for c in t["f"].get("closures", []):
                        work.append(c)
                for s in blk["s"]:
                    if s["k"] == "assign" and s["r"]["k"] == "agg" and s["r"].get("ak") == "closure":
                        work.append(s["r"]["closure"])
        _REACH[cfg] = seen
    return path in _REACH[cfg]


# ------------------------------------------------------------------ R2 / R3 validation
KEYWORDS = [("false_positive", "FalsePositiveRatio"), ("fp_ratio", "FalsePositiveRatio"), ("recent_ratio", "RecentRatio"), ("ghost_ratio", "GhostRatio"),
            ("window", "WindowCacheSize"), ("protected", "ProtectedCacheSize"), ("probationary", "ProbationaryCacheSize"), ("samples", "Samples"), ("size", "Size")]


def float_sources(F, f):
    """the f64 inputs of a constructor: parameters of type f64, and f64 / Option<f64> fields of the builder it consumes"""
    out = []
    for i, tt in enumerate(f.get("inputs") or []):
        if tt.get("k") == "prim" and tt.get("n") == "f64":
            out.append(("param", i + 1, "parameter %d" % (i + 1)))
        head = tt.get("n") if tt.get("k") == "adt" else (tt.get("t", {}) or {}).get("n") if tt.get("k") == "ref" else None
        adt = F.adts.get(head) if head else None
        if adt and i == 0:
            for v in adt.get("variants", []):
                for fld in v["fields"]:
                    if fld["ty"] in ("f64", "core::option::Option<f64>"):
                        out.append(("field", fld["n"], "field `%s`" % fld["n"]))
    return out


def mentions(x, src):
    for t_ in subterms(x):
        if src[0] == "param" and t_[0] == "param" and t_[1] == src[1]:
            return True
        if src[0] == "field":
            if t_[0] == "proj" and isinstance(t_[1], tuple) and t_[1][0] == "param" and t_[1][1] == 1 and src[1] in t_[2]:
                return True
            if t_[0] == "load" and t_[1][0] == "H" and isinstance(t_[1][1], tuple) and t_[1][1][0] == "param" and t_[1][1][1] == 1 and src[1] in t_[1][2]:
                return True
    return False


def validation(cx, chk, cfg, F):
    """every f64 a fallible constructor takes (directly or out of its builder) is accepted only on paths where ordered comparisons with a
    lower and an upper bound evaluated TRUE (a comparison that came out false says nothing about NaN)"""
    n_src = 0
    for f in F.doc["fns"]:
        if f.get("kind") != "AssocFn" or "core::result::Result" not in str(f.get("output")) or F.body(f["path"]) is None:
            continue
        if not (f.get("exported") or f["q"].endswith("Builder::finalize")):
            continue
        out = f.get("output") or {}
        okty = (out.get("a") or [{}])[0]
        if not (out.get("n") == "core::result::Result" and okty.get("k") == "adt" and okty.get("n") in F.adts):
            continue      # constructor-like: Result<crate type, _>
        srcs = float_sources(F, f)
        if not srcs:
            continue
        q = f["q"]
        paths = [p for p in cx.paths(cfg, f["path"], policy=OpaqueHelpers(), tag="inv") if isinstance(p.ret, tuple) and p.ret[0] == "agg" and p.ret[2][1] == "Ok"]
        if not paths:
            raise AnalysisError("no Ok path in %s" % q)
        for src in srcs:
            n_src += 1
            bad = None
            for p in paths:
                # the ratio may be validated in a helper: facts of every depth count
                facts = [(c, t) for c, t, e in cond_facts(p)]
                cands = []
                for c, t in facts:
                    if isinstance(c, tuple) and c[0] == "bin" and c[1] in ("Lt", "Le", "Gt", "Ge") and any("f64" in str(x) for x in (c[2], c[3]) if isinstance(x, tuple) and x[0] == "const"):
                        x = c[2] if not (isinstance(c[2], tuple) and c[2][0] == "const") else c[3]
                        if x not in cands and mentions(x, src):
                            cands.append(x)
                if not cands:
                    bad = "a successful path does not compare %s (an f64) with its bounds" % src[2]
                    continue
                verdicts = []
                for fp in cands:
                    lower = upper = False
                    for c, t in facts:
                        if not (isinstance(c, tuple) and c[0] == "bin" and c[1] in ("Lt", "Le", "Gt", "Ge") and fp in (c[2], c[3])):
                            continue
                        if not t:
                            continue    # a comparison that evaluated false proves nothing about NaN
                        op = c[1] if c[2] == fp else {"Lt": "Gt", "Gt": "Lt", "Le": "Ge", "Ge": "Le"}[c[1]]
                        if op in ("Gt", "Ge"):
                            lower = True
                        if op in ("Lt", "Le"):
                            upper = True
                    verdicts.append((lower, upper))
                if not any(lo and up for lo, up in verdicts):
                    lower = any(lo for lo, up in verdicts)
                    bad = "%s is accepted on a path where no ordered comparison with its %s bound evaluated true: NaN (which fails every comparison) passes the validation" % (
                        src[2], "lower" if not lower else "upper")
            key = "fp-nan" if "false_positive" in str(src[1]) else "nan|%s" % (src[1],)
            if bad:
                chk.violation("C05.R2", "%s|%s" % (q, key), "%s: %s" % (q, bad), f["span"]["file"], f["span"]["lo"], f["q"], None, cfg)
            else:
                chk.ob("C05.R2", "%s:%s|%s" % (cfg, q, key), "%s accepted only under lower and upper bound comparisons that evaluated true (NaN-rejecting) on %d Ok paths" % (src[2], len(paths)))
    chk.floor("C05.R2", "f64 inputs of fallible constructors in %s" % cfg, n_src, 8)
    # error paths: variant matches the tested scalar and carries it
    errs = {}
    for f in F.doc["fns"]:
        if f["kind"] != "AssocFn" or not f.get("exported") or "core::result::Result" not in str(f.get("output")) or F.body(f["path"]) is None:
            continue
        if not any(x in f["q"] for x in ("Builder::finalize", "::new", "::with_", "from_builder")):
            continue
        variants = set()
        for p in cx.paths(cfg, f["path"], policy=OpaqueHelpers(), tag="inv"):
            rv = p.ret
            if not (isinstance(rv, tuple) and rv[0] == "agg" and rv[1] == "adt" and rv[2][1] == "Err"):
                continue
            ev = rv[3][0]
            if not (isinstance(ev, tuple) and ev[0] == "agg" and ev[1] == "adt"):
                continue
            var = ev[2][1]
            variants.add(var)
            payload = ev[3][0] if ev[3] else None
            facts = [(c, t) for c, t, e in cond_facts(p)]
            if not facts:
                continue
            c, t = facts[-1]
            tested = [x for x in (c[2], c[3]) if isinstance(c, tuple) and c[0] == "bin" and not (isinstance(x, tuple) and x[0] == "const")] if isinstance(c, tuple) and c[0] == "bin" else []
            if isinstance(c, tuple) and c[0] == "call":
                ce = [e for e in p.events if e["ev"] == "call" and e.get("id") == c[1]]
                if ce and ce[0]["q"].endswith("contains"):
                    a = ce[0]["args"][1]
                    tested = [absint.Interp(None).read(p.st, a[1]) if isinstance(a, tuple) and a[0] == "ref" else a]
            if not tested:
                continue
            tv = tested[0]
            name = fmt_val(tv).lower()
            kw = next((v for k, v in KEYWORDS if k in name), None)
            okp = payload == tv or (isinstance(payload, tuple) and payload[0] == "const" and any(isinstance(x, tuple) and x[0] == "const" and str(x[2]) == str(payload[2]) for x in (c[2], c[3]))) \
                if isinstance(c, tuple) and c[0] == "bin" else payload == tv
            if not okp:
                chk.violation("C05.R2", "%s|%s|payload" % (f["q"], var), "%s rejects %s but reports %s(%s): the error does not carry the offending value" % (f["q"], fmt_val(tv)[:40], var, fmt_val(payload)[:40]),
                              f["span"]["file"], f["span"]["lo"], f["q"], None, cfg)
            elif not variant_matches(ev[2][0], var, name, is_float_test(p, c)):
                chk.violation("C05.R2", "%s|%s|variant" % (f["q"], var), "%s rejects %s with the unrelated variant %s" % (f["q"], fmt_val(tv)[:40], var), f["span"]["file"], f["span"]["lo"], f["q"], None, cfg)
            else:
                chk.ob("C05.R2", "%s:%s|%s" % (cfg, f["q"], var), "rejects %s with %s(<that value>)" % (fmt_val(tv)[:40], var))
        errs[f["q"]] = variants
    # R3 siblings
    for a, b in (("lru::two_queue::TwoQueueCacheBuilder::finalize", "lru::two_queue::TwoQueueCache::with_2q_parameters"),):
        if a in errs and b in errs:
            if errs[a] == errs[b]:
                chk.ob("C05.R3", "%s:%s~%s" % (cfg, a.split("::")[-2], b.split("::")[-1]), "same error variants %s" % sorted(errs[a]))
            else:
                f = F.find(a)
                chk.violation("C05.R3", "2q-siblings", "%s can fail with %s but %s with %s: the two constructors disagree on validation" % (a, sorted(errs[a]), b, sorted(errs[b])),
                              f["span"]["file"], f["span"]["lo"], f["q"], None, cfg)


def is_float_test(p, c):
    if isinstance(c, tuple) and c[0] == "bin":
        return any(isinstance(x, tuple) and x[0] == "const" and x[1] in ("f64", "f32") for x in (c[2], c[3]))
    if isinstance(c, tuple) and c[0] == "call":
        return "RangeInclusive" in (c[2] or "") or "f64" in (c[2] or "")
    return False


def variant_matches(err_adt, var, name, is_ratio):
    """the error variant names the kind of scalar that was rejected (and, where the field name says so, which one)"""
    if is_ratio:
        if "Ratio" not in var:
            return False
        for k, v in (("recent", "Recent"), ("ghost", "Ghost"), ("false_positive", "FalsePositive"), ("fp_ratio", "FalsePositive")):
            if k in name and v not in var:
                return False
        return True
    if not any(x in var for x in ("Size", "Width", "Samples")):
        return False
    if err_adt.endswith("WTinyLFUError") and " add " not in name and "mul" not in name:
        for k, v in (("window", "Window"), ("protected", "Protected"), ("probationary", "Probationary"), ("samples", "Samples")):
            if k in name and v not in var:
                return False
    if "samples" in name and "Samples" not in var:
        return False
    return True


def cross_config(chk, per_cfg):
    a, b = per_cfg.get("std", {}), per_cfg.get("no_std", {})
    skip = ("count_min_sketch", "polyfill", "libm")
    ka = set(k for k in a if not any(s in k[0] for s in skip))
    kb = set(k for k in b if not any(s in k[0] for s in skip))
    norm = lambda ks: set((k[0], k[1], k[2].replace("hashbrown::", "").replace("std::collections::", "")) for k in ks)
    da, db = norm(ka) - norm(kb), norm(kb) - norm(ka)
    # sites inlined from the cfg-specific sketch show up under other functions with different operand shapes: compare by (fn, kind) counts
    ca, cb = {}, {}
    for k in norm(ka):
        ca[(k[0], k[1])] = ca.get((k[0], k[1]), 0) + 1
    for k in norm(kb):
        cb[(k[0], k[1])] = cb.get((k[0], k[1]), 0) + 1
    diff = [(k, ca.get(k, 0), cb.get(k, 0)) for k in set(ca) | set(cb) if ca.get(k, 0) != cb.get(k, 0) and "TinyLFU" not in k[0] and "tinylfu" not in k[0]]
    if diff:
        for k, x, y in sorted(diff)[:5]:
            chk.violation("C05.R4", "%s|%s" % k, "function %s has %d `%s` panic sites in the std build but %d in the no_std build" % (k[0], x, k[1], y), None, None, k[0], None, "both")
    else:
        chk.ob("C05.R4", "std~no_std", "%d shared (function, kind) groups agree" % len(set(ca) & set(cb)))
