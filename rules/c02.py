"""C02 - coherence: a cache may forget an entry but never returns a wrong one."""
from .lib import api, ntrun, composite
from .lib.absint import fmt_val, fmt_loc, subterms
from .lib.nt import payload_field, fmt_list
from .lib.facts import AnalysisError

LEVEL = "other"
EXPLANATION = (
    "Per-path shape rules on the fully inlined MIR (both configurations). R1/R2 (node typestate): a node's key is overwritten only while the "
    "node is out of the index, and every map.insert indexes a node under a KeyRef pointing at that same node's key. R3: in every put-like "
    "function a path returns Update/EvictedAndUpdate iff it exchanged the caller's value with the value slot of exactly one node exactly once "
    "(mem::swap/ptr::swap/swap_value/update), the returned old value is what the swap took out, that node ends up linked+indexed in a "
    "resident list, and every path on which a lookup of the caller's key hit a retained list does so. R4: contains/peek/peek_mut/get/get_mut "
    "consult the same lists and go through the map index only. R5: remove returns Some(v) exactly on a hit, v being the hit node's value "
    "moved out once. 'Latest value across whole histories' follows from these plus the list invariant and is not itself decided; Borrow/Hash/Eq "
    "consistency of K is the trait contract."
)
TRUSTED_BASE = ["as C03"]

PUTS = [("RawLRU", "put", api.CACHE_TRAIT), ("SegmentedCache", "put", api.CACHE_TRAIT), ("TwoQueueCache", "put", api.CACHE_TRAIT),
        ("AdaptiveCache", "put", api.CACHE_TRAIT), ("SegmentedCache", "put_protected", None)]


def run(cx, chk):
    chk.rule("C02.R1", "re-key protocol: a node's key is written only while the node is unindexed")
    chk.rule("C02.R2", "index key = own key: map.insert(KeyRef{p}, n) has p pointing at n.key")
    chk.rule("C02.R3", "swap on hit: Update-returning paths swap the caller's value with exactly one node's value exactly once; hits return Update")
    chk.rule("C02.R4", "lookup agreement: contains/peek/peek_mut/get/get_mut consult the same lists")
    chk.rule("C02.R6", "a key is inserted into a list only after it was looked up unsuccessfully in / removed from every other retained list (one copy per key)")
    chk.rule("C02.R7", "purge empties, and a failed remove has consulted, every retained list (incl. ghost lists, which keep values)")
    chk.rule("C02.R8", "peek/peek_mut/get/get_mut hand out the value of the node that the lookup with the caller's key found - never another node's")
    chk.rule("C02.R5", "remove returns the hit node's value, moved out exactly once; None on a miss")
    ntrun.report_findings(cx, chk, ("C02.",))
    for cfg, F in cx.cfgs():
        for short, name, trait in PUTS:
            f = composite.cache_method(F, api.CACHES[short], name, trait)
            r3(cx, chk, cfg, F, f)
        from .lib.report import Relabel
        for short in ("SegmentedCache", "TwoQueueCache", "AdaptiveCache", "WTinyLFUCache"):
            # a key that was purged or removed is gone from every retained list (ghost lists keep values: a survivor would be reported again)
            composite.policy_hygiene(cx, Relabel(chk, {"C02.R7": "C02.R7"}), cfg, F, short, "-", "C02.R7")
        for short, adt in api.CACHES.items():
            r4(cx, chk, cfg, F, short, adt)
            r5(cx, chk, cfg, F, short, adt)
            r8(cx, chk, cfg, F, short, adt)
        # R6: one list per key (shared with C01.R4): a second copy of a key survives `remove` and keeps answering lookups
        from . import c01

        class Relabel:
            def ob(self_, rule, key, how="ok", sample=None):
                chk.ob("C02.R6", key, how, sample)

            def violation(self_, rule, key, msg, *a, **k):
                chk.violation("C02.R6", key, msg + " - a removed key would still be reported resident", *a, **k)

            def floor(self_, rule, name, n, floor):
                chk.floor("C02.R6", name, n, floor)

            def undecide(self_, rule, key, why):
                chk.undecide("C02.R6", key, why)
        c01.r4(cx, Relabel(), cfg, F)


def ret_variant(rv):
    if isinstance(rv, tuple) and rv[0] == "agg" and rv[1] == "adt" and rv[2][0].endswith("PutResult"):
        return rv[2][1], dict(zip(rv[4], rv[3]))
    return None, {}


def r3(cx, chk, cfg, F, f):
    VP = ("param", 3, False)   # the caller's `v` (wherever it was moved to)
    KP = ("param", 2, False)
    npaths = nhit = 0
    ok = True
    for f_, p, w in ntrun.walk(cx, cfg, only=lambda g: g["path"] == f["path"]):
        npaths += 1
        # exchanges of the caller's value with a memory slot: mem::swap / ptr::swap in either argument order, or mem::replace(slot, v)
        swaps = []
        for e in p.events:
            if e["ev"] == "swap" and (e["va"] == VP or e["vb"] == VP):
                swaps.append(e)
            elif e["ev"] == "replace" and e.get("new") == VP:
                swaps.append({"ev": "swap", "a": ("L", -1, -1, ()), "b": e["loc"], "va": VP, "vb": e["old"], "ln": e.get("ln"), "fn": e.get("fn")})
        var, flds = ret_variant(p.ret)
        if var is None:
            chk.undecide("C02.R3", f["q"], "return value is not a PutResult aggregate: %s" % fmt_val(p.ret)[:80])
            continue
        hits = [ev for ev in w.events_on if ev[1] in ("lookup-hit", "unindex") and ev[3] is not None and hit_on_key(p, ev, KP)]
        is_upd = var in ("Update", "EvictedAndUpdate")
        where = (swaps[0] if swaps else (p.events[hits[0][0]] if hits else {"ln": f["span"]["lo"], "fn": f["path"]}))
        g = F.fns.get(where.get("fn")) or f

        def bad(what, msg):
            nonlocal ok
            ok = False
            chk.violation("C02.R3", "%s|%s" % (f["q"], what), msg, g["span"]["file"], where.get("ln"), g["q"], ["root " + f["q"]], cfg)
        if hits:
            nhit += 1
        if hits and not is_upd:
            bad("hit-not-update", "a path of %s finds the key's entry (%s) but returns %s instead of Update" % (f["q"], fmt_list(hits[0][2]), var))
        if is_upd:
            if len(swaps) != 1:
                bad("swap-count-%d" % len(swaps), "a path of %s returning %s exchanges the caller's value %d times (must be exactly once): the stored value would be stale or the old value lost"
                    % (f["q"], var, len(swaps)))
                continue
            sw = swaps[0]
            other = sw["b"] if sw["va"] == VP else sw["a"]
            if not (other[0] == "H" and other[2] == ("val",)):
                bad("swap-target", "the caller's value is swapped with %s, not with a node's value slot" % fmt_loc(other))
                continue
            n = other[1]
            st = w.nodes.get(n)
            upd = flds.get("0") if var == "Update" else flds.get("update")
            oldv = sw["vb"] if sw["va"] == VP else sw["va"]
            if upd != oldv:
                bad("update-payload", "%s carries %s, not the value the swap took out of the node (%s)" % (var, fmt_val(upd)[:60], fmt_val(oldv)[:60]))
            if st is None or not (isinstance(st.link, tuple) and isinstance(st.index, tuple)):
                bad("node-not-resident", "the node that received the new value is not linked+indexed at exit (%s)" % (st.short() if st else "untracked"))
            elif hits and n not in [h[3] for h in hits] and not evictee_of_ghost(w, n):
                bad("wrong-node", "the new value was written into node %s which is not the node found for the key" % fmt_val(n))
        # (a path that does not hit may store the caller's value into a recycled node: that is the insertion, not an update)
    if ok:
        chk.ob("C02.R3", "%s:%s" % (cfg, f["q"]), "%d paths, %d hit paths, each hit swaps once and returns the swapped-out value" % (npaths, nhit),
               {"fn": f["q"], "paths": npaths, "hit_paths": nhit})
    chk.floor("C02.R3", "hit paths of %s in %s" % (f["q"], cfg), nhit, 1)


def hit_on_key(p, ev, KP):
    """the lookup was made with (a reference to a local holding) the caller's key"""
    ks = p.events[ev[0]].get("keysrc")
    if ks == KP or ks == ("kv", KP):
        return True
    if isinstance(ks, tuple) and ks[0] == "ref" and ks[1][0] in ("L", "T"):
        v = READER.read(p.st, ks[1])
        if isinstance(v, tuple) and v[0] == "moved":
            v = v[1]
        return v == KP
    return False


from .lib import absint
READER = absint.Interp(None)


def evictee_of_ghost(w, n):
    # 2Q: the ghost list's own evictee is the key's node when the key was pushed out by the incoming ghost (pruning rule P2)
    st = w.nodes.get(n)
    return st is not None and st.kind in ("end", "end-unguarded")


LOOKUPS = ("contains", "peek", "peek_mut", "get", "get_mut")


def r4(cx, chk, cfg, F, short, adt):
    sets = {}
    for name in LOOKUPS:
        f = composite.cache_method(F, adt, name)
        fields = set()
        for p in cx.paths(cfg, f["path"]):
            fields |= composite.fields_touched(p)
        sets[name] = fields
    ref = sets["contains"]
    # path level: an answer "absent" (None / false) is only given after every list `contains` consults was looked into
    want = set(x for x in ref)
    for name in LOOKUPS:
        f = composite.cache_method(F, adt, name)
        for p in cx.paths(cfg, f["path"]):
            rv = p.ret
            absent = (isinstance(rv, tuple) and rv[0] == "agg" and rv[1] == "adt" and rv[2][1] == "None") or rv == ("const", "bool", "0")
            if not absent:
                continue
            looked = composite.fields_touched(p)
            if want - looked:
                chk.violation("C02.R4", "%s::%s|absent-early" % (short, name), "%s::%s answers `absent` on a path that never looked into %s: a resident entry can be reported missing" % (short, name, sorted(want - looked)),
                              f["span"]["file"], f["span"]["lo"], f["q"], None, cfg)
                break
    for name, s in sets.items():
        f = composite.cache_method(F, adt, name)
        if s != ref:
            chk.violation("C02.R4", "%s::%s" % (short, name), "%s::%s consults %s but contains consults %s" % (short, name, sorted(s), sorted(ref)),
                          f["span"]["file"], f["span"]["lo"], f["q"], None, cfg)
        else:
            chk.ob("C02.R4", "%s:%s::%s" % (cfg, short, name), "consults %s" % sorted(s))


def r8(cx, chk, cfg, F, short, adt):
    from .lib.routing import View
    for name in ("peek", "peek_mut", "get", "get_mut"):
        f = composite.cache_method(F, adt, name)
        ok = True
        n = 0
        for f_, p, w in ntrun.walk(cx, cfg, only=lambda g: g["path"] == f["path"]):
            rv = p.ret
            if not (isinstance(rv, tuple) and rv[0] == "agg" and rv[1] == "adt" and rv[2][1] == "Some"):
                continue
            nodes = set(t[1][1] for t in subterms(rv) if t[0] == "ref" and t[1][0] == "H" and t[1][2] == ("val",))
            if not nodes:
                continue
            n += 1
            v = View(p, w)
            found = set(v.key_hits.values())
            extra = [x for x in nodes if x not in found]
            if extra:
                ok = False
                chk.violation("C02.R8", "%s::%s|foreign-value" % (short, name), "%s::%s returns a reference to the value of node %s, which is not the node found under the caller's key (%s)" % (
                    short, name, fmt_val(extra[0])[:60], ", ".join(fmt_val(x)[:40] for x in found) or "no hit"), f["span"]["file"], f["span"]["lo"], f["q"], None, cfg)
        if ok and n < 1:
            raise AnalysisError("C02.R8: no path of %s::%s returns a reference into a node (%s): rule would be vacuous" % (short, name, cfg))
        if ok:
            chk.ob("C02.R8", "%s:%s::%s" % (cfg, short, name), "the returned reference is the hit node's value on %d Some-paths" % n)


def r5(cx, chk, cfg, F, short, adt):
    f = composite.cache_method(F, adt, "remove")
    kparam = ("param", 2, False)
    ok = True
    n = 0
    for f_, p, w in ntrun.walk(cx, cfg, only=lambda g: g["path"] == f["path"]):
        n += 1
        hits = [ev for ev in w.events_on if ev[1] == "unindex" and p.events[ev[0]].get("keysrc") in (kparam, ("kv", kparam))]
        rv = p.ret
        var = rv[2][1] if isinstance(rv, tuple) and rv[0] == "agg" and rv[1] == "adt" else None
        if var is None:
            chk.undecide("C02.R5", f["q"], "return value not an Option aggregate")
            continue
        if bool(hits) != (var == "Some"):
            ok = False
            chk.violation("C02.R5", "%s::remove|hit-%s-returns-%s" % (short, bool(hits), var), "%s::remove: a path with%s a hit returns %s" % (short, "" if hits else "out", var),
                          f["span"]["file"], f["span"]["lo"], f["q"], None, cfg)
            continue
        if hits:
            pf = payload_field(rv[3][0])
            if not pf or pf[1] != "val" or pf[0] != hits[-1][3]:
                ok = False
                chk.violation("C02.R5", "%s::remove|payload" % short, "%s::remove returns %s, not the value of the removed node" % (short, fmt_val(rv[3][0])[:80]),
                              f["span"]["file"], f["span"]["lo"], f["q"], None, cfg)
            if len(hits) != 1:
                ok = False
                chk.violation("C02.R5", "%s::remove|multi" % short, "%s::remove removes the key from %d lists on one path" % (short, len(hits)),
                              f["span"]["file"], f["span"]["lo"], f["q"], None, cfg)
    if ok:
        chk.ob("C02.R5", "%s:%s::remove" % (cfg, short), "%d paths: Some(node.val) exactly on a hit" % n)
