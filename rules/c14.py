"""C14 - iterators visit each entry exactly once, in order, from both ends: cursor/link table, countdown, constructors, projections."""
from .lib import api, composite
from .lib.absint import fmt_val, fmt_loc
from .lib.facts import AnalysisError
from .lib.routing import outer_enters

LEVEL = "other"
EXPLANATION = (
    "Structural rules on every path of the inlined MIR of the iterator methods (both configurations). R1 cursor/link table: each of "
    "next/next_back of the four entry iterators reads exactly one cursor field and advances it through the matching link (ptr only by "
    ".next, end only by .prev; MRU-order: next uses ptr, next_back uses end; LRU-order: the mirror image) and yields key and val of the "
    "node that cursor pointed at before advancing. R2 countdown: every Some path decrements len by exactly 1 under the guard len != 0, "
    "None paths store nothing; size_hint is (len, Some(len)), count is len; ExactSizeIterator and FusedIterator are implemented for all ten "
    "types. R3 constructors: iter/iter_lru/iter_mut/iter_lru_mut set len = map.len(), ptr = (*head).next, end = (*tail).prev; every "
    "per-list accessor of 2Q/ARC delegates to the same-named RawLRU method on the list its name says. R4 projections: Keys*/Values* yield "
    "the key/val component of the wrapped iterator in the same direction. That the list really has len nodes between the sentinels is "
    "C03's subject; the meet-in-the-middle behaviour follows from R1+R2 given that invariant and is not executed."
)
TRUSTED_BASE = ["MIR facts", "list well-formedness (C03)"]

RAWMOD = "lru::raw::"
ENTRY = ("MRUIter", "LRUIter", "MRUIterMut", "LRUIterMut")
WRAP = {"KeysMRUIter": ("key", "MRU"), "KeysLRUIter": ("key", "LRU"), "ValuesMRUIter": ("val", "MRU"), "ValuesLRUIter": ("val", "LRU"),
        "ValuesMRUIterMut": ("val", "MRU"), "ValuesLRUIterMut": ("val", "LRU")}
SELF = ("param", 1, True)


def order_of(name):
    return "MRU" if "MRU" in name else "LRU"


def expected_cursor(order, method):
    # MRU: next walks from head.next forward (ptr/.next); LRU: next walks from tail.prev backwards (end/.prev)
    fwd = (order == "MRU") == (method == "next")
    return ("ptr", "next") if fwd else ("end", "prev")


def run(cx, chk):
    chk.rule("C14.R1", "cursor/link table: one cursor per method, advanced through the matching link, yields the node it pointed at")
    chk.rule("C14.R2", "countdown: Some paths decrement len by exactly 1 under len != 0; None paths store nothing; size_hint/count exact; ExactSize+Fused for all")
    chk.rule("C14.R3", "constructors set len/ptr/end from map.len()/(*head).next/(*tail).prev; per-list accessors delegate to the list their name says")
    chk.rule("C14.R5", "the countdown the iterators start from (map.len()) equals the number of linked nodes whenever user code can observe the cache: at every eviction-callback site every node is linked iff indexed")
    chk.rule("C14.R6", "the order the iterators expose is recency order: every use operation of RawLRU moves the hit node to the head (detach then attach), prev/next are stored only by the link primitives, and every RawLRU operation leaves each node linked iff indexed")
    chk.rule("C14.R7", "no iterator overrides a cursor-advancing provided method other than next / next_back (size_hint and count are decided too)")
    chk.rule("C14.R4", "Keys*/Values* project the key/val component of the wrapped iterator, same direction")
    for cfg, F in cx.cfgs():
        iters = api.iterator_heads(F)
        chk.floor("C14.R1", "iterator types in %s" % cfg, len(iters), 10)
        for head in sorted(iters):
            name = head.split("::")[-1]
            for tr, method in (("core::iter::Iterator", "next"), ("core::iter::DoubleEndedIterator", "next_back")):
                f = impl_method(F, head, tr, method)
                if f is None:
                    chk.violation("C14.R1", "%s|%s|missing" % (name, method), "%s does not implement %s" % (name, method), None, None, name, None, cfg)
                    continue
                advance(cx, chk, cfg, F, f, name, method)
            hints(cx, chk, cfg, F, head, name)
            for tr in ("core::iter::ExactSizeIterator", "core::iter::FusedIterator"):
                if not any(im["trait"] == tr and im["self_head"] == head for im in F.doc["impls"]):
                    chk.violation("C14.R2", "%s|%s" % (name, tr), "%s does not implement %s" % (name, tr.split("::")[-1]), F.adts[head]["span"]["file"], F.adts[head]["span"]["lo"], name, None, cfg)
                else:
                    chk.ob("C14.R2", "%s:%s|%s" % (cfg, name, tr.split("::")[-1]), "implemented")
        constructors(cx, chk, cfg, F)
        accessors(cx, chk, cfg, F)
        countdown_source(cx, chk, cfg, F)
        recency_order(cx, chk, cfg, F)
        clone_order(cx, chk, cfg, F)
        chk.floor("C14.R7", "iterator trait methods in %s" % cfg, overrides(cx, chk, cfg, F), 40)
        composite_refresh(cx, chk, cfg, F)


def impl_method(F, head, trait, method):
    for im in F.doc["impls"]:
        if im["self_head"] == head and im["trait"] == trait:
            for it in im["items"]:
                f = F.fns.get(it)
                if f and f["name"] == method:
                    return f
    return None


def advance(cx, chk, cfg, F, f, name, method):
    paths = cx.paths(cfg, f["path"])
    order = order_of(name)
    cur, link = expected_cursor(order, method)
    pre = ("inner",) if name in WRAP else ()
    some = none = 0
    ok = True

    def bad(what, msg, ln=None):
        nonlocal ok
        ok = False
        chk.violation("C14.R1" if what.startswith("cursor") or what.startswith("yield") else "C14.R2", "%s::%s|%s" % (name, method, what),
                      "%s::%s: %s" % (name, method, msg), f["span"]["file"], ln or f["span"]["lo"], f["q"], None, cfg)
    for p in paths:
        stores = [e for e in p.events if e["ev"] == "store" and e["loc"][0] == "H" and e["loc"][1] == SELF]
        other = [e for e in p.events if e["ev"] in ("store", "swap", "replace") and not (e["ev"] == "store" and e["loc"][0] == "H" and e["loc"][1] == SELF)
                 and e["ev"] != "store" or (e["ev"] == "store" and e["loc"][0] == "H" and e["loc"][1] != SELF)]
        rv = p.ret
        var = rv[2][1] if isinstance(rv, tuple) and rv[0] == "agg" and rv[1] == "adt" else None
        if var == "None":
            none += 1
            if stores or other:
                bad("none-stores", "a path returning None stores to %s" % fmt_loc((stores or other)[0]["loc"]), (stores or other)[0].get("ln"))
            continue
        if var != "Some":
            chk.undecide("C14.R1", f["q"], "return value is not an Option aggregate")
            continue
        some += 1
        if other:
            bad("cursor-foreign-store", "stores to %s (not a cursor field of the iterator)" % fmt_loc(other[0]["loc"]), other[0].get("ln"))
        lens = [e for e in stores if e["loc"][2] == pre + ("len",)]
        curs = [e for e in stores if e["loc"][2] in (pre + ("ptr",), pre + ("end",))]
        len0 = ("load", ("H", SELF, pre + ("len",)), 0)
        if len(lens) != 1 or lens[0]["val"] != ("bin", "Sub", len0, ("const", "usize", "1")):
            bad("countdown", "a Some path does not decrement len by exactly 1 (%s)" % [fmt_val(e["val"]) for e in lens], lens[0].get("ln") if lens else None)
        guard = [e for e in p.events if e["ev"] == "branch" and e.get("cond") == ("bin", "Eq", len0, ("const", "usize", "0")) and str(e.get("outcome")) == "0"]
        guard += [e for e in p.events if e["ev"] == "branch" and e.get("cond") == ("bin", "Ne", len0, ("const", "usize", "0")) and str(e.get("outcome")) != "0"]
        guard += [e for e in p.events if e["ev"] == "branch" and e.get("cond") == ("bin", "Gt", len0, ("const", "usize", "0")) and str(e.get("outcome")) != "0"]
        if not guard:
            bad("guard", "a Some path is not guarded by len != 0")
        if len(curs) != 1:
            bad("cursor-count", "a Some path advances %d cursor fields (must be exactly one)" % len(curs))
            continue
        c = curs[0]
        cfield = c["loc"][2][-1]
        old = ("load", ("H", SELF, pre + (cfield,)), 0)
        want = ("load", ("H", old, (link,)), 0)
        if cfield != cur:
            bad("cursor-field", "advances `%s`; %s-order %s must use `%s`" % (cfield, order, method, cur), c.get("ln"))
        elif c["val"][:2] != want[:2]:
            bad("cursor-link", "`%s` is advanced to %s instead of through .%s" % (cfield, fmt_val(c["val"]), link), c.get("ln"))
        # yielded item: key/val of the node the cursor pointed at before advancing
        item = rv[3][0]
        comps = list(item[3]) if isinstance(item, tuple) and item[0] == "agg" and item[1] == "tuple" else [item]
        want_fields = ["key", "val"] if name in ENTRY else [WRAP[name][0]]
        got = []
        for x in comps:
            if isinstance(x, tuple) and x[0] == "ref" and x[1][0] == "H" and x[1][1] == ("load", ("H", SELF, pre + (cur,)), 0) and len(x[1][2]) == 1:
                got.append(x[1][2][0])
            else:
                got.append(fmt_val(x))
        if got != want_fields:
            bad("yield", "yields %s; must yield %s of the node `%s` pointed at before advancing" % (got, want_fields, cur))
    if some < 1 or none < 1:
        chk.undecide("C14.R1", f["q"], "expected both a Some and a None path (%d/%d)" % (some, none))
    elif ok:
        chk.ob("C14.R1", "%s:%s::%s" % (cfg, name, method), "advances %s through .%s, yields the old node, len -= 1 under len != 0" % (cur, link),
               {"iterator": name, "method": method, "cursor": cur, "link": link, "paths": len(paths)})


def hints(cx, chk, cfg, F, head, name):
    pre = ("inner",) if name in WRAP else ()
    f = impl_method(F, head, "core::iter::Iterator", "size_hint")
    if f is None:
        chk.violation("C14.R2", "%s|size_hint|default" % name, "%s does not override size_hint (the default (0, None) is not exact)" % name,
                      F.adts[head]["span"]["file"], F.adts[head]["span"]["lo"], name, None, cfg)
    else:
        ln = ("load", ("H", SELF, pre + ("len",)), 0)
        want = ("agg", "tuple", None, (ln, ("agg", "adt", ("core::option::Option", "Some"), (ln,), ("0",))), ("0", "1"))
        for p in cx.paths(cfg, f["path"]):
            if p.ret != want:
                chk.violation("C14.R2", "%s|size_hint" % name, "%s::size_hint returns %s, not (len, Some(len))" % (name, fmt_val(p.ret)), f["span"]["file"], f["span"]["lo"], f["q"], None, cfg)
            else:
                chk.ob("C14.R2", "%s:%s|size_hint" % (cfg, name), "(len, Some(len))")
    f = impl_method(F, head, "core::iter::Iterator", "count")
    if f is not None:
        for p in cx.paths(cfg, f["path"]):
            want = ("proj", ("param", 1, True), pre + ("len",))
            if p.ret != want:
                chk.violation("C14.R2", "%s|count" % name, "%s::count returns %s, not len" % (name, fmt_val(p.ret)), f["span"]["file"], f["span"]["lo"], f["q"], None, cfg)
            else:
                chk.ob("C14.R2", "%s:%s|count" % (cfg, name), "len")


CTORS = {"iter": "MRUIter", "iter_lru": "LRUIter", "iter_mut": "MRUIterMut", "iter_lru_mut": "LRUIterMut"}


def constructors(cx, chk, cfg, F):
    RAW = api.CACHES["RawLRU"]
    for m, ty in CTORS.items():
        f = F.find(RAW + "::" + m)
        for p in cx.paths(cfg, f["path"]):
            rv = p.ret
            ok = isinstance(rv, tuple) and rv[0] == "agg" and rv[1] == "adt" and rv[2][0] == RAWMOD + ty
            if ok:
                v = dict(zip(rv[4], rv[3]))
                head = ("load", ("H", SELF, ("head",)), 0)
                tail = ("load", ("H", SELF, ("tail",)), 0)
                ok = (isinstance(v["len"], tuple) and v["len"][0] == "len" and v["len"][1] == ("H", SELF, ("map",))
                      and v["ptr"][:2] == ("load", ("H", head, ("next",))) and v["end"][:2] == ("load", ("H", tail, ("prev",))))
            if ok:
                chk.ob("C14.R3", "%s:RawLRU::%s" % (cfg, m), "%s{len: map.len(), ptr: (*head).next, end: (*tail).prev}" % ty)
            else:
                chk.violation("C14.R3", "RawLRU::%s" % m, "%s builds %s" % (m, fmt_val(rv)[:200]), f["span"]["file"], f["span"]["lo"], f["q"], None, cfg)
    # keys/values wrap the matching entry iterator
    for m, inner in (("keys", "iter"), ("keys_lru", "iter_lru"), ("values", "iter"), ("values_lru", "iter_lru"), ("values_mut", "iter_mut"), ("values_lru_mut", "iter_lru_mut")):
        f = F.find(RAW + "::" + m)
        for p in cx.paths(cfg, f["path"]):
            ent = outer_enters(p, lambda e: e["q"].startswith(RAW + "::"))
            if [e["q"].split("::")[-1] for e in ent] == [inner] and ent[0]["args"][0] == SELF:
                chk.ob("C14.R3", "%s:RawLRU::%s" % (cfg, m), "wraps self.%s()" % inner)
            else:
                chk.violation("C14.R3", "RawLRU::%s" % m, "%s does not wrap self.%s() (calls %s)" % (m, inner, [e["q"].split("::")[-1] for e in ent]),
                              f["span"]["file"], f["span"]["lo"], f["q"], None, cfg)
    for im in F.doc["impls"]:
        if (im["trait"] or "").endswith("IntoIterator") and "RawLRU" in im["self_ty"]:
            f = [F.fns[i] for i in im["items"] if i in F.fns][0]
            want = "iter_mut" if im["self_ty"].startswith("&mut") or im["self_ty"].startswith("&'a mut") or " mut " in im["self_ty"][:10] else "iter"
            for p in cx.paths(cfg, f["path"]):
                ent = [e["q"].split("::")[-1] for e in outer_enters(p, lambda e: e["q"].startswith(RAW + "::"))]
                if ent == [want]:
                    chk.ob("C14.R3", "%s:IntoIterator for %s" % (cfg, im["self_ty"][:12]), "delegates to %s" % want)
                else:
                    chk.violation("C14.R3", "IntoIterator|%s" % im["self_ty"][:12], "into_iter calls %s, expected %s" % (ent, want), f["span"]["file"], f["span"]["lo"], f["q"], None, cfg)


def accessors(cx, chk, cfg, F):
    RAW = api.CACHES["RawLRU"]
    raw_names = set(f["name"] for f, im in api.cache_methods(F, RAW))
    n = 0
    for short in ("TwoQueueCache", "AdaptiveCache"):
        adt = api.CACHES[short]
        fields = sorted([x for x, _ in composite.list_fields(F, adt)], key=len, reverse=True)
        for f, im in api.cache_methods(F, adt):
            if im["trait"] or not f.get("exported"):
                continue
            fld = next((x for x in fields if f["name"].startswith(x + "_") and f["name"][len(x) + 1:] in raw_names), None)
            if fld is None:
                continue
            meth = f["name"][len(fld) + 1:]
            n += 1
            for p in cx.paths(cfg, f["path"]):
                ent = outer_enters(p, lambda e: RAW in e["q"])
                good = len(ent) == 1 and ent[0]["q"].split("::")[-1] == meth and ent[0]["args"] and isinstance(ent[0]["args"][0], tuple) \
                    and ent[0]["args"][0][0] == "ref" and ent[0]["args"][0][1] == ("H", SELF, (fld,))
                if good:
                    ex = [e for e in p.events if e["ev"] == "exit" and e.get("callee_fid") == ent[0]["callee_fid"]]
                    good = bool(ex) and ex[0]["ret"] == p.ret
                if good:
                    chk.ob("C14.R3", "%s:%s::%s" % (cfg, short, f["name"]), "delegates to self.%s.%s()" % (fld, meth))
                else:
                    chk.violation("C14.R3", "%s::%s" % (short, f["name"]), "%s::%s does not return self.%s.%s() (calls %s)" % (
                        short, f["name"], fld, meth, [(e["q"].split("::")[-1], fmt_val(e["args"][0])[:30] if e["args"] else "") for e in ent]),
                        f["span"]["file"], f["span"]["lo"], f["q"], None, cfg)
    chk.floor("C14.R3", "per-list accessors in %s" % cfg, n, 60)


def countdown_source(cx, chk, cfg, F):
    """iterators walk the list guided only by map.len(): list and index must agree at every point where a user callback (which may
    unwind and leave the cache observable) runs"""
    from .lib import ntrun
    from .lib.absint import fmt_val
    RAW = api.CACHES["RawLRU"]
    n = 0
    bad = 0
    for f in api.roots(F):
        im = F.impl_of(f)
        if not im or im["self_head"] != RAW or ntrun.is_teardown(f):
            continue
        for f_, p, w in ntrun.walk(cx, cfg, only=lambda g: g["path"] == f["path"]):
            for (i, e, kind, snap) in w.snapshots:
                if kind != "cb":
                    continue
                n += 1
                for node, st in snap.items():
                    if st.kind in ("unknown", "sentinel") or st.own != "raw":
                        continue
                    L, I = isinstance(st.link, tuple), isinstance(st.index, tuple)
                    if L != I:
                        bad += 1
                        g = F.fns.get(e.get("fn")) or f
                        chk.violation("C14.R5", "%s|%s" % (f["q"], st.src.split("#")[0]),
                                      "the eviction callback runs while node %s is linked=%s indexed=%s: if it unwinds, iterators (which count map.len() nodes along the list) yield a non-entry or skip one"
                                      % (fmt_val(node), L, I), g["span"]["file"], e.get("ln"), g["q"], ["root " + f["q"]], cfg)
    if not bad:
        chk.ob("C14.R5", cfg + ":callback-sites", "list and index agree at %d callback site visits" % n)


class _Remap:
    """reports another rule module's instances under a C14 rule id (the other rule id stays in the site key)"""

    def __init__(self, chk, rid, only):
        self.chk, self.rid, self.only = chk, rid, only

    def rule(self, *a):
        pass

    def ob(self, rule, key, how="ok", sample=None):
        if rule.startswith(self.only):
            self.chk.ob(self.rid, "%s|%s" % (rule, key), how)

    def violation(self, rule, key, msg, *a, **k):
        if rule.startswith(self.only):
            self.chk.violation(self.rid, "%s|%s" % (rule, key), msg, *a, **k)

    def undecide(self, rule, key, why):
        self.chk.undecide(self.rid, key, why)

    def floor(self, *a):
        self.chk.floor(*a)


def clone_order(cx, chk, cfg, F):
    """the iterators of a clone yield what the iterators of the original yield: RawLRU::clone rebuilds the list in the same order"""
    from . import c16
    from .lib.report import Relabel
    fcl = [F.fns[i] for im in F.doc["impls"] if (im["trait"] or "").endswith("clone::Clone") and im["self_head"] == api.CACHES["RawLRU"] for i in im["items"] if i in F.fns and F.fns[i]["name"] == "clone"]
    if len(fcl) != 1:
        raise AnalysisError("C14.R6: RawLRU::clone not found in %s" % cfg)
    c16.rawlru_clone(cx, Relabel(chk, {"C16.R2": "C14.R6"}, keep=lambda key: "|order" in key or "|no-list-walk" in key or key.endswith("clone")), cfg, F, fcl[0])


def composite_refresh(cx, chk, cfg, F):
    """the per-list iterators of 2Q / ARC are most-recent-first only if a hit on an entry of a list moves it to that list's head (or
    to another list): the refresh / promote clauses of the routing rules C08.R1 and C09.R3, reported here for the lists the iterators walk"""
    from . import c08, c09
    from .lib.report import Relabel
    keep = lambda key: "no-refresh" in key or "not-promoted" in key or key.endswith(("::put", "::get", "::get_mut"))     # noqa: E731
    for short in ("TwoQueueCache", "AdaptiveCache"):
        # ... and a non-use operation (peek*, contains, len, the per-list accessors) leaves every list as it is
        composite.policy_hygiene(cx, Relabel(chk, {"C14.R6": "C14.R6"}), cfg, F, short, "C14.R6", "-")
    for mod, adt, rid in ((c08, "TwoQueueCache", "C08.R1"), (c09, "AdaptiveCache", "C09.R3")):
        for name in ("put", "get", "get_mut"):
            mod.route(cx, Relabel(chk, {rid: "C14.R6"}, keep=keep), cfg, F, composite.cache_method(F, api.CACHES[adt], name), name)


VERIFIED_OVERRIDES = {"core::iter::Iterator": ("next", "size_hint", "count"), "core::iter::DoubleEndedIterator": ("next_back",), "core::iter::ExactSizeIterator": (),
                      "core::iter::FusedIterator": ()}


def overrides(cx, chk, cfg, F, rule="C14.R7"):
    """the cursor of an iterator is advanced only by the methods whose bodies R1/R2 decide: an override of any other provided method of
    Iterator / DoubleEndedIterator / ExactSizeIterator (nth, nth_back, advance_by, fold, last, len, ...) moves the cursor by code no rule
    has looked at - e.g. an `nth` that leaves the cursor on the item it returned hands the same `&mut V` out twice"""
    n = 0
    for im in F.doc["impls"]:
        if im.get("trait") not in VERIFIED_OVERRIDES or im["self_head"] not in api.iterator_heads(F):
            continue
        for i in im["items"]:
            fn = F.fns.get(i)
            if not fn or fn.get("kind") != "AssocFn":
                continue
            n += 1
            short = im["self_head"].split("::")[-1]
            if fn["name"] == "len" and im["trait"] == "core::iter::ExactSizeIterator" and F.body(fn["path"]) is not None:
                # an explicit ExactSizeIterator::len does not move the cursor; it must be the countdown
                pre = ("inner",) if short in WRAP else ()
                want = (("load", ("H", SELF, pre + ("len",)), 0), ("proj", SELF, pre + ("len",)))
                rets = [p.ret for p in cx.paths(cfg, fn["path"])]
                if rets and all(r in want for r in rets):
                    chk.ob(rule, "%s:%s::len" % (cfg, short), "returns the countdown")
                else:
                    chk.violation("C14.R2", "%s|len" % short, "%s::len returns %s, not the countdown len" % (short, fmt_val(rets[0])[:60] if rets else "?"), fn["span"]["file"], fn["span"]["lo"], fn["q"], None, cfg)
                continue
            if fn["name"] in VERIFIED_OVERRIDES[im["trait"]]:
                chk.ob(rule, "%s:%s::%s" % (cfg, im["self_head"].split("::")[-1], fn["name"]), "decided by R1/R2")
            else:
                chk.violation(rule, "%s::%s|override" % (im["self_head"].split("::")[-1], fn["name"]),
                              "%s overrides %s::%s: the cursor is advanced by a body that the cursor/countdown rules do not cover (only next, next_back, size_hint and count are decided)" % (
                                  im["self_head"].split("::")[-1], im["trait"].split("::")[-1], fn["name"]), fn["span"]["file"], fn["span"]["lo"], fn["q"], None, cfg)
    return n


def recency_order(cx, chk, cfg, F):
    """'most-recent-first' is list order only if the list is kept in recency order: the two structural halves of that, decided by the
    engines of C06.R1 (use operations refresh) and C03.R4 (who may store a link)"""
    from . import c06
    from .lib import ntrun
    c06.use_ops(cx, _Remap(chk, "C14.R6", ("C06.R1",)), cfg, F)
    # ... and nothing else moves an entry: the non-use operations of RawLRU and the hit branch of its *_or_put helpers mutate nothing
    c06.nonuse(cx, _Remap(chk, "C14.R6", ("C06.R1",)), cfg, F)
    n = bad = 0
    for f, p, w in ntrun.walk(cx, cfg):
        n += 1
        for fd in w.findings:
            if fd["rule"].startswith("C03.R1"):
                # the countdown walk needs exactly map.len() nodes between the sentinels: every operation of RawLRU must leave
                # each node linked iff indexed (typestate engine of C03.R1, reported here for the list the iterators walk)
                bad += 1
                g = F.fns.get(fd["fn"]) or f
                chk.violation("C14.R6", "typestate|%s|%s" % (g["q"], ntrun.norm(fd["msg"])[:120]),
                              "%s (reached from %s): the iterators count map.len() nodes along the chain, so chain and index must hold the same nodes" % (fd["msg"], f["q"]),
                              g["span"]["file"], fd["ln"], g["q"], ["root " + f["q"]], cfg)
            if fd["rule"] == "C03.R4" and "prev/next" in fd["msg"]:
                bad += 1
                g = F.fns.get(fd["fn"]) or f
                chk.violation("C14.R6", "link-store|%s|%s" % (g["q"], ntrun.norm(fd["msg"])[:120]),
                              "%s (reached from %s): the iterators follow these links, and only the link primitives keep them a consistent doubly linked list" % (fd["msg"], f["q"]),
                              g["span"]["file"], fd["ln"], g["q"], ["root " + f["q"]], cfg)
    if not bad:
        chk.ob("C14.R6", cfg + ":link-stores", "no store to prev/next outside the link primitives on %d paths" % n)
