#!/usr/bin/env python3
"""selftest/matrix.py [seed ...]: apply each seeded change to /repo, run all 20 checks, undo; writes selftest/matrix.json.
Developer command (not registered in MANIFEST). /repo must be clean."""
import concurrent.futures, json, os, subprocess, sys
ROOT = os.path.dirname(os.path.dirname(os.path.abspath(__file__)))
IDS = ["C%02d" % i for i in range(1, 21)]

def run_check(pid):
    r = subprocess.run([os.path.join(ROOT, "bin", "check"), pid], capture_output=True, text=True, cwd=ROOT)
    rules = sorted(set(l.split()[0] for l in r.stdout.splitlines() if l.startswith(pid + ".")))
    return pid, r.returncode, rules

def main():
    seeds = sys.argv[1:] or sorted(os.listdir(os.path.join(ROOT, "seeded")))
    mp = os.path.join(ROOT, "selftest", "matrix.json")
    out = json.load(open(mp)) if sys.argv[1:] and os.path.exists(mp) else {}   # named seeds: merge into the existing matrix
    if subprocess.run(["git", "-C", "/repo", "diff", "--quiet"]).returncode != 0:
        print("/repo is dirty"); return 2
    for s in seeds:
        patch = os.path.join(ROOT, "seeded", s, "patch.diff")
        if subprocess.run(["git", "-C", "/repo", "apply", patch]).returncode != 0:
            out[s] = {"error": "patch does not apply"}; continue
        try:
            subprocess.run([sys.executable, os.path.join(ROOT, "rules", "lib", "facts.py")], capture_output=True)   # regenerate facts once
            res = {}
            with concurrent.futures.ThreadPoolExecutor(max_workers=10) as ex:
                for pid, rc, rules in ex.map(run_check, IDS):
                    res[pid] = {"exit": rc, "rules": rules}
            out[s] = res
            fired = [p for p, r in res.items() if r["exit"] == 1]
            err = [p for p, r in res.items() if r["exit"] not in (0, 1)]
            print(s, "caught by", fired, ("ERRORS " + str(err)) if err else "", flush=True)
        finally:
            subprocess.run(["git", "-C", "/repo", "checkout", "--", "."])
        json.dump(out, open(mp, "w"), indent=1)

if __name__ == "__main__":
    sys.exit(main())
