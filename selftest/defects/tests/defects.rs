use caches::*;
use caches::lfu::{SampledLFU, TinyLFU};
use caches::lru::CacheError;

#[test]
fn f01_arc_len_exceeds_cap() {
    let mut c = AdaptiveCache::new(1).unwrap();
    c.put("a", 1); c.put("b", 2); c.put("a", 3);
    assert!(c.len() <= c.cap(), "len {} cap {}", c.len(), c.cap());
}
#[test]
fn f02_put_protected_duplicates_key() {
    let mut c = SegmentedCache::new(2, 2).unwrap();
    c.put(1, 1);
    c.put_protected(1, 10);
    assert_eq!(c.len(), 1);
    assert_eq!(c.peek(&1), Some(&10));
    assert_eq!(c.remove(&1), Some(10));
    assert!(!c.contains(&1));
}
#[test]
fn f03_resize_zero_then_put() {
    let mut c: RawLRU<u64, u64> = RawLRU::new(2).unwrap();
    c.put(1, 1);
    c.resize(0);
    assert_eq!(c.put(5, 6), PutResult::Evicted { key: 5, value: 6 });
    assert_eq!(c.len(), 0);
}
#[test]
fn f04_2q_small_quota() {
    let mut c = TwoQueueCache::new(2).unwrap();
    c.put(1, 1); c.put(2, 2);
    c.get(&1); c.get(&2); // two promotions: recent empty, quota 0
    c.put(3, 3);
    assert!(c.len() <= 2);
    let mut c = TwoQueueCache::with_recent_ratio(2, 1.0).unwrap();
    c.put(1, 1); c.put(2, 2); c.put(3, 3); // 1 ghosted
    c.put(1, 11); // ghost hit, frequent empty
    assert!(c.len() <= 2);
}
#[test]
fn f05_arc_ghost_hit_evicted_by_replace() {
    let mut c = AdaptiveCache::new(2).unwrap();
    for k in [0, 3, 2, 1, 0] { c.put(k, k); }
    assert!(c.len() <= 2);
}
#[test]
fn f06_2q_builder_unwraps_err() {
    let r = TwoQueueCacheBuilder::new(1).finalize::<u64, u64>();
    assert!(r.is_err() || r.is_ok());
}
#[test]
fn f07_from_empty_vec() {
    let c: RawLRU<u64, u64> = RawLRU::from(Vec::<(u64, u64)>::new());
    assert_eq!(c.len(), 0);
}
#[test]
fn f08_tinylfu_size_one() {
    let mut t: TinyLFU<u64> = TinyLFU::new(1, 10, 0.01).unwrap();
    t.increment(&1); t.increment(&1);
    let _ = t.estimate(&1);
}
#[test]
fn f11_compare_consistency() {
    let mut t: TinyLFU<u64> = TinyLFU::new(16, 4, 0.01).unwrap();
    // a counted twice (doorkeeper + 1 in sketch), then reset by the 4th access
    t.increment(&1); t.increment(&1); t.increment(&1); t.increment(&1);
    // after reset: doorkeeper clear, counter of key 1 halved from 3 -> 1
    let (ea, eb) = (t.estimate(&1), t.estimate(&2));
    assert_eq!(t.gt(&1, &2), ea > eb, "estimates {} {}", ea, eb);
    assert_eq!(t.lt(&2, &1), eb < ea);
}
#[test]
fn f12_nan_fp_ratio_rejected() {
    assert!(TinyLFU::<u64>::new(16, 4, f64::NAN).is_err());
    assert!(WTinyLFUCacheBuilder::<u64>::new(1, 2, 2, 4).set_false_positive_ratio(f64::NAN).finalize::<u64>().is_err());
}
#[test]
fn f10_slru_put_probationary_hit_full_protected() {
    let mut c = SegmentedCache::new(2, 1).unwrap();
    c.put(1, 1); c.get(&1); // 1 protected (full)
    c.put(2, 2);            // 2 probationary
    assert_eq!(c.put(2, 20), PutResult::Update(2));
    assert_eq!(c.peek(&2), Some(&20));
    assert_eq!(c.len(), 2);
}
#[test]
fn f13_clone_keeps_order() {
    let mut c: RawLRU<u64, u64> = RawLRU::new(64).unwrap();
    for k in 0..64 { c.put(k, k); }
    let d = c.clone();
    let a: Vec<_> = c.iter().map(|(k, _)| *k).collect();
    let b: Vec<_> = d.iter().map(|(k, _)| *k).collect();
    assert_eq!(a, b);
}
#[test]
fn f16_sampled_increment_twice() {
    let mut s: SampledLFU<u64> = SampledLFU::new(100);
    s.increment(&1, 5); s.increment(&1, 5);
    assert_eq!(s.remove(&1), Some(5));
    assert_eq!(s.room_left(0), 100);
}
#[test]
fn f18_2q_size_one_constructs_or_errs() {
    // not a defect by itself: documents current behaviour (ghost bound floors to 0 -> Err)
    let r: Result<TwoQueueCache<u64, u64>, CacheError> = TwoQueueCache::new(1);
    let _ = r;
}
