#!/usr/bin/env python3
"""selftest/pmatrix.py [--benign] [--jobs N] [--checks C01,C02] [name ...]
Parallel version of matrix.py / benign_matrix.py that never touches /repo's working tree: each seeded change (seeded/<name>/patch.diff)
or benign refactoring (selftest/benign/<name>/patch.diff) is applied in its own scratch git worktree of /repo under /tmp/mx, the checks
run against that worktree (VERIF_REPO / VERIF_CACHE / VERIF_EVIDENCE point into /tmp/mx/<name>.*), and the worktree with its build
output is removed afterwards.  Results are merged into selftest/matrix.json resp. selftest/benign_matrix.json.
Developer command (not registered in MANIFEST)."""
import concurrent.futures, json, os, shutil, subprocess, sys
ROOT = os.path.dirname(os.path.dirname(os.path.abspath(__file__)))
IDS = ["C%02d" % i for i in range(1, 21)]
MX = os.environ.get("PMATRIX_DIR", "/tmp/mx")


def one(args):
    name, patch, ids, inner, tier = args
    wt = os.path.join(MX, name)
    cache, ev = wt + ".cache", wt + ".ev"
    for d in (wt, cache, ev):
        shutil.rmtree(d, ignore_errors=True)
    subprocess.run(["git", "-C", "/repo", "worktree", "prune"], capture_output=True)
    r = subprocess.run(["git", "-C", "/repo", "worktree", "add", "--detach", wt, "HEAD"], capture_output=True, text=True)
    if r.returncode != 0:
        return name, {"error": "worktree: " + r.stderr[-300:]}
    try:
        if subprocess.run(["git", "-C", wt, "apply", patch], capture_output=True).returncode != 0:
            return name, {"error": "patch does not apply"}
        os.makedirs(cache)
        os.makedirs(ev)
        # warm the scratch cache with the dependency builds of the main cache (the crate itself is always re-checked)
        for cfg in ("std", "no_std"):
            src = os.path.join(ROOT, ".cache", "target-" + cfg)
            if os.path.isdir(src):
                subprocess.run(["cp", "-r", src, os.path.join(cache, "target-" + cfg)])
        env = dict(os.environ, VERIF_REPO=wt, VERIF_CACHE=cache, VERIF_EVIDENCE=ev)
        subprocess.run([sys.executable, os.path.join(ROOT, "rules", "lib", "facts.py")], capture_output=True, env=env)

        def run_check(pid):
            r = subprocess.run([os.path.join(ROOT, "bin", "check"), pid, "--tier", tier], capture_output=True, text=True, cwd=ROOT, env=env)
            rules = sorted(set(l.split()[0] for l in r.stdout.splitlines() if l.startswith(pid + ".")))
            lines = [l[:300] for l in r.stdout.splitlines() if l.startswith(pid + ".") or l.startswith(("ANALYSIS", "UNDECIDED")) or "Error" in l][:4]
            return pid, {"exit": r.returncode, "rules": rules, "lines": lines}
        with concurrent.futures.ThreadPoolExecutor(max_workers=inner) as ex:
            res = dict(ex.map(run_check, ids))
        return name, res
    finally:
        subprocess.run(["git", "-C", "/repo", "worktree", "remove", "--force", wt], capture_output=True)
        for d in (wt, cache, ev):
            shutil.rmtree(d, ignore_errors=True)


def main():
    a = sys.argv[1:]
    benign = "--benign" in a
    reverts = "--reverts" in a     # selftest/reverts/<commit>/patch.diff = `git revert -n <fix commit>`: the checks of the properties
    #                                 known_findings.json names for that commit must fire again
    jobs = int(a[a.index("--jobs") + 1]) if "--jobs" in a else 4
    ids = a[a.index("--checks") + 1].split(",") if "--checks" in a else IDS
    tier = a[a.index("--tier") + 1] if "--tier" in a else "quick"
    skip = set()
    for flag in ("--jobs", "--checks", "--tier"):
        if flag in a:
            skip.add(a.index(flag)); skip.add(a.index(flag) + 1)
    names = [x for i, x in enumerate(a) if i not in skip and not x.startswith("--")]
    base = os.path.join(ROOT, "selftest", "benign") if benign else os.path.join(ROOT, "selftest", "reverts") if reverts else os.path.join(ROOT, "seeded")
    expect = {}
    if reverts:
        for line in json.load(open(os.path.join(ROOT, "known_findings.json")))["fixed"]:
            w = line.split()
            expect.setdefault(w[2], set()).add(w[1].split("=")[1])
    if not names:
        names = sorted(d for d in os.listdir(base) if os.path.exists(os.path.join(base, d, "patch.diff")))
    mp = os.path.join(ROOT, "selftest", "benign_matrix.json" if benign else "reverts_matrix.json" if reverts else "matrix.json")
    out = json.load(open(mp)) if os.path.exists(mp) else {}
    os.makedirs(MX, exist_ok=True)
    inner = max(1, 16 // jobs)
    work = [(n, os.path.join(base, n, "patch.diff"), ids, inner, tier) for n in names]
    if tier != "quick":
        mp = mp.replace(".json", "_%s.json" % tier)
        out = json.load(open(mp)) if os.path.exists(mp) else {}
    bad = 0
    with concurrent.futures.ThreadPoolExecutor(max_workers=jobs) as ex:
        for name, res in ex.map(one, work):
            if "error" in res:
                print(name, "ERROR", res["error"], flush=True); out[name] = res; bad += 1; continue
            prev = out.get(name, {}) if "error" not in out.get(name, {}) else {}
            prev.update(res)
            out[name] = prev
            fired = sorted(p for p, r in res.items() if r["exit"] == 1)
            err = sorted(p for p, r in res.items() if r["exit"] not in (0, 1))
            if benign:
                q = not fired and not err
                bad += 0 if q else 1
                print(name, "ALL QUIET" if q else "ALARMS %s" % {p: res[p]["lines"][:2] for p in fired + err}, flush=True)
            elif reverts:
                missing = sorted(expect.get(name, set()) - set(fired))
                bad += 1 if missing or err else 0
                print(name, "fires", fired, ("NOT RE-DETECTED BY " + str(missing)) if missing else "(all named checks fire again)", ("EXIT-2 " + str(err)) if err else "", flush=True)
            else:
                own = name.split("-")[0]
                print(name, "caught by", fired, "" if own in fired or own not in ids else "(own check quiet)", ("EXIT-2 " + str(err)) if err else "", flush=True)
            json.dump(out, open(mp, "w"), indent=1)
    shutil.rmtree(MX, ignore_errors=True)
    return 1 if bad else 0


if __name__ == "__main__":
    sys.exit(main())
