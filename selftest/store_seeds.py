#!/usr/bin/env python3
"""store_seeds.py <stage dir> <RESULTS file> <round>: copy verified seeds (patch.diff, demo.rs, README.md) into seeded/<name>/ with meta.json"""
import json, os, re, shutil, sys
stage, results, rnd = sys.argv[1], sys.argv[2], int(sys.argv[3])
ROOT = os.path.dirname(os.path.dirname(os.path.abspath(__file__)))
res = {}
for l in open(results):
    if l.startswith('RESULT '):
        parts = l.split(); res[parts[1]] = ' '.join(parts[2:])
for s, o in sorted(res.items()):
    if not o.startswith("head_demo=pass build=ok nostd=ok lib_tests=73ok patched_demo=fail"):
        print("NOT KEPT", s, o); continue
    dst = os.path.join(ROOT, 'seeded', s)
    if os.path.exists(dst): shutil.rmtree(dst)
    os.makedirs(dst)
    for f in ('patch.diff', 'demo.rs', 'README.md'):
        shutil.copy(os.path.join(stage, s, f), dst)
    files = sorted(set(re.findall(r'^\+\+\+ b/(\S+)', open(dst + '/patch.diff').read(), re.M)))
    meta = {"property": s.split('-')[0], "round": rnd,
            "origin": "written by an independent sub-agent that saw only the property text, one-line titles of the earlier seeds of this property and a scratch worktree (nothing from /verif)",
            "files_touched": files, "needs_to_manifest": "see README.md (the sub-agent's own description of the trigger)",
            "verified_by_me": {"script": "selftest/verify_seed.sh (scratch worktree under /tmp/sv, removed afterwards)",
                               "commands": ["cargo test --offline --test demo   (on HEAD)", "git apply patch.diff", "cargo build --offline", "cargo build --offline --no-default-features --features hashbrown,libm",
                                            "cargo test --offline --lib", "cargo test --offline --test demo   (and in the no_std configuration when the change is in no_std-only code)"], "outcome": o},
            "detected_by": [], "own_property_check_fires": None, "analysis_errors": []}
    json.dump(meta, open(dst + '/meta.json', 'w'), indent=1)
    print("kept", s)
