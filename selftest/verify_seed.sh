#!/bin/bash
# verify one seeded change:  verify_seed.sh <dir with patch.diff + demo.rs> <label>
# checks: demo passes on HEAD; with the patch: builds (std + no_std), 73 lib tests pass, demo fails.
# Uses a scratch worktree under /tmp/sv (removed afterwards). Prints one RESULT line.
set -u
SRC=$1; LABEL=$2
WT=/tmp/sv/$LABEL
mkdir -p /tmp/sv
git -C /repo worktree remove --force $WT >/dev/null 2>&1
rm -rf $WT
git -C /repo worktree add -q --detach $WT HEAD || { echo "RESULT $LABEL worktree-failed"; exit 1; }
cp /repo/Cargo.lock $WT/
cd $WT
mkdir -p tests; cp $SRC/demo.rs tests/demo.rs
export CARGO_NET_OFFLINE=true
head_demo=fail; patched_build=fail; patched_nostd=fail; patched_tests=fail; patched_demo=pass
if timeout 900 cargo test --offline --test demo >$WT/log.head 2>&1; then head_demo=pass; fi
if git apply $SRC/patch.diff 2>$WT/log.apply; then
  if cargo build --offline >$WT/log.build 2>&1; then patched_build=ok; fi
  if cargo build --offline --no-default-features --features hashbrown,libm >$WT/log.nostd 2>&1; then patched_nostd=ok; fi
  if timeout 900 cargo test --offline --lib >$WT/log.lib 2>&1 && grep -q "73 passed" $WT/log.lib; then patched_tests=73ok; fi
  if timeout 900 cargo test --offline --test demo >$WT/log.demo 2>&1; then patched_demo=pass; else patched_demo=fail; fi
  if [ $patched_demo = pass ]; then
    # a change in code compiled only without `std`: the demo has to be run in the no_std configuration (HEAD must pass there too)
    NS="--no-default-features --features hashbrown,libm"
    if timeout 900 cargo test --offline --test demo $NS >$WT/log.demo_nostd 2>&1; then :; else
      git apply -R $SRC/patch.diff
      if timeout 900 cargo test --offline --test demo $NS >$WT/log.head_nostd 2>&1; then patched_demo="fail(no_std-config;head-passes-there)"; fi
      git apply $SRC/patch.diff
    fi
  fi
else
  patched_build=apply-failed
fi
echo "RESULT $LABEL head_demo=$head_demo build=$patched_build nostd=$patched_nostd lib_tests=$patched_tests patched_demo=$patched_demo"
mkdir -p /tmp/svlogs/$LABEL; cp $WT/log.* /tmp/svlogs/$LABEL/ 2>/dev/null
cd /; git -C /repo worktree remove --force $WT >/dev/null 2>&1; rm -rf $WT
