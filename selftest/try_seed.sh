#!/bin/bash
# try_seed.sh <patch.diff> <ID> [<ID>...] : apply a seeded change to /repo, run the named checks, undo it.
P=$1; shift
cd /repo && git diff --quiet || { echo "/repo is dirty"; exit 3; }
git -C /repo apply "$P" || { echo "patch does not apply"; exit 3; }
for id in "$@"; do
  out=$(cd /verif && bin/check $id 2>&1); rc=$?
  echo "== $id exit=$rc"; echo "$out" | grep -E "VIOLATION|UNDECIDED|ANALYSIS-ERROR|Traceback|Error" | head -5
  echo "$out" | grep -vE "VIOLATION|via " | head -4
done
git -C /repo checkout -- .
