#!/usr/bin/env python3
"""fills seeded/*/meta.json 'detected_by' from selftest/matrix.json and prints the DESIGN table"""
import json, os
ROOT = os.path.dirname(os.path.dirname(os.path.abspath(__file__)))
m = json.load(open(os.path.join(ROOT, "selftest", "matrix.json")))
rows = []
for s in sorted(m):
    res = m[s]
    if "error" in res:
        continue
    fired = {p: r["rules"] for p, r in res.items() if r["exit"] == 1}
    errs = [p for p, r in res.items() if r["exit"] not in (0, 1)]
    mp = os.path.join(ROOT, "seeded", s, "meta.json")
    meta = json.load(open(mp))
    meta["detected_by"] = [{"check": p, "rules": rl} for p, rl in sorted(fired.items())]
    meta["own_property_check_fires"] = meta["property"] in fired
    meta["analysis_errors"] = errs
    json.dump(meta, open(mp, "w"), indent=1)
    own = meta["property"]
    rows.append("| %s | %s | %s | %s |" % (s, "yes" if own in fired else "**no**", ", ".join("%s (%s)" % (p, " ".join(x.split(".", 1)[1] for x in rl)) for p, rl in sorted(fired.items())) or "—", ", ".join(errs)))
print("| seed | own check fires | checks that fire (rules) | exit-2 |\n|---|---|---|---|")
print("\n".join(rows))
print("\n%d seeds, %d caught by their own property's check, %d caught by some check" % (len(rows), sum("| yes |" in r for r in rows), sum("| — |" not in r for r in rows)))
