#!/usr/bin/env python3
"""make_seed_tasks.py <scratch dir> <n> <ID> [<ID> ...]: for each property creates a scratch git worktree of /repo at <scratch dir>/<ID>
and writes TASK.md into it: the property's text and anchors (from properties.jsonl), the one-line titles of the seeds already collected
for it, and the request for ONE more breaking change (seed number <n>) with a demo. The sub-agent is then told only
"read <scratch dir>/<ID>/TASK.md and do what it says; work only inside that directory" - it sees nothing from /verif.
Deliverables land in <worktree>/OUT/{patch.diff,demo.rs,README.md}; verify with verify_seed.sh, store with store_seeds.py, then remove the
worktree (git -C /repo worktree remove --force <dir>). Developer command (round 7 was produced this way)."""
import glob, json, os, subprocess, sys
ROOT = os.path.dirname(os.path.dirname(os.path.abspath(__file__)))
base, n, ids = sys.argv[1], sys.argv[2], sys.argv[3:]
props = {}
for l in open(os.path.join(ROOT, "properties.jsonl")):
    d = json.loads(l)
    props[d["id"]] = d
for i in ids:
    wt = os.path.join(base, i)
    subprocess.run(["git", "-C", "/repo", "worktree", "add", "-q", "--detach", wt, "HEAD"], check=True)
    subprocess.run(["cp", "/repo/Cargo.lock", wt])
    titles = [open(r).readline().strip().lstrip("# ") for r in sorted(glob.glob(os.path.join(ROOT, "seeded", i + "-*", "README.md")))]
    p = props[i]
    open(os.path.join(wt, "TASK.md"), "w").write(f"""# Task

You are working in a scratch git worktree of the Rust library al8n/caches-rs at {wt} (work only inside this directory; build with `cargo build --offline`, test with `cargo test --offline --lib`; there is no network).

Property of the library that should hold:

**{p['title']}**

{p['statement']}

Quantifier: {p['quantifier']}

Code anchors: {json.dumps(p['anchors'])}

Produce ONE change to the library source (under src/) that BREAKS this property while
 (a) still compiling (`cargo build --offline` and `cargo build --offline --no-default-features --features hashbrown,libm`),
 (b) still passing the existing tests unchanged (`cargo test --offline --lib` reports 73 passed),
 (c) looking like a plausible edit a maintainer might make (a refactoring slip, an 'optimisation', a mis-merged condition), not sabotage marked by comments,
 (d) needing something specific to manifest: a multi-step sequence of operations, an unusual input or configuration, a panic in user code (Hash/Eq/Drop/callback) at a particular point, or two cooperating sites that each look fine alone - NOT something ordinary use would expose at once. Do not rely on exhausting memory or on capacities near usize::MAX.

Also write a demonstration: an integration test file `tests/demo.rs` (uses the crate as `caches`) that PASSES on the unmodified code and FAILS with your change (assertion failure, panic, or leak/double-drop detected with counters - no external crates).

Earlier changes already collected for this property (do something different in mechanism or location from all of them):
""" + "\n".join(" - " + x for x in titles) + f"""

Deliverables, written to {wt}/OUT/ :
 - patch.diff : output of `git diff -- src` (the library change only, applies with `git apply` on the unmodified tree)
 - demo.rs : the demonstration test file (copy of tests/demo.rs)
 - README.md : first line `# {i} seed {n} - <one-line title>`; then what was changed, why it breaks the property, what it needs to manifest.

Before finishing, verify yourself: with the change, build (both configurations) ok, 73 lib tests pass, `cargo test --offline --test demo` fails; after reverting src, the demo passes. Leave the worktree with your change applied. Keep the change small.
""")
    print("task written:", os.path.join(wt, "TASK.md"))
