#!/usr/bin/env python3
"""apply each behaviour-preserving refactoring of selftest/benign/<i>/patch.diff to /repo, run all 20 checks, undo.
Every check must exit 0. Writes selftest/benign_matrix.json."""
import concurrent.futures, json, os, subprocess, sys
ROOT = os.path.dirname(os.path.dirname(os.path.abspath(__file__)))
IDS = ["C%02d" % i for i in range(1, 21)]

def run_check(pid):
    r = subprocess.run([os.path.join(ROOT, "bin", "check"), pid], capture_output=True, text=True, cwd=ROOT)
    lines = [l[:300] for l in r.stdout.splitlines() if l.startswith(pid + ".") or l.startswith("ANALYSIS") or l.startswith("UNDECIDED") or "Error" in l][:4]
    return pid, r.returncode, lines

def main():
    names = sys.argv[1:] or sorted(os.listdir(os.path.join(ROOT, "selftest", "benign")), key=lambda x: int(x) if x.isdigit() else 999)
    out = {}
    if subprocess.run(["git", "-C", "/repo", "diff", "--quiet"]).returncode != 0:
        print("/repo is dirty"); return 2
    for s in names:
        patch = os.path.join(ROOT, "selftest", "benign", s, "patch.diff")
        if not os.path.exists(patch):
            continue
        if subprocess.run(["git", "-C", "/repo", "apply", patch]).returncode != 0:
            out[s] = {"error": "patch does not apply"}; print(s, "does not apply"); continue
        try:
            subprocess.run([sys.executable, os.path.join(ROOT, "rules", "lib", "facts.py")], capture_output=True)
            res = {}
            with concurrent.futures.ThreadPoolExecutor(max_workers=10) as ex:
                for pid, rc, lines in ex.map(run_check, IDS):
                    res[pid] = {"exit": rc, "lines": lines}
            out[s] = res
            bad = {p: r for p, r in res.items() if r["exit"] != 0}
            print(s, "ALL QUIET" if not bad else "ALARMS: %s" % {p: (r["exit"], r["lines"][:2]) for p, r in bad.items()}, flush=True)
        finally:
            subprocess.run(["git", "-C", "/repo", "checkout", "--", "."])
            subprocess.run(["git", "-C", "/repo", "clean", "-fdq", "src"])
    json.dump(out, open(os.path.join(ROOT, "selftest", "benign_matrix.json"), "w"), indent=1)

if __name__ == "__main__":
    sys.exit(main())
