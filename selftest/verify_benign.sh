#!/bin/bash
# verify_benign.sh <n>: the refactoring selftest/benign/<n>/patch.diff builds in both configurations and keeps the 73 lib tests
# (and the no_std lib tests) green, in a scratch worktree under /tmp/bv (removed afterwards). Prints one RESULT line.
N=$1; D=$(cd "$(dirname "$0")" && pwd)/benign/$N; WT=/tmp/bv/$N
mkdir -p /tmp/bv; rm -rf $WT; git -C /repo worktree prune
git -C /repo worktree add --detach $WT HEAD -q || { echo "RESULT $N worktree-failed"; exit 1; }
cd $WT; export CARGO_NET_OFFLINE=true CARGO_TARGET_DIR=$WT/target
git apply $D/patch.diff || { echo "RESULT $N apply=fail"; cd /; git -C /repo worktree remove --force $WT; exit 1; }
b1=fail; b2=fail; t1=fail; t2=fail
cargo build --offline -q 2>/dev/null && b1=ok
cargo build --offline -q --no-default-features --features hashbrown,libm 2>/dev/null && b2=ok
cargo test --offline --lib 2>/dev/null | grep -q "73 passed; 0 failed" && t1=73ok
cargo test --offline --lib --no-default-features --features hashbrown,libm 2>/dev/null | grep -q "0 failed" && t2=ok
echo "RESULT $N build=$b1 nostd=$b2 lib_tests=$t1 nostd_tests=$t2"
cd /; git -C /repo worktree remove --force $WT; rm -rf $WT
