// factdump: a rustc_private driver that serialises, for the local crate only, the type-checked
// item facts (ADTs, impls, fn signatures with region identities, effective visibility) and the
// MIR of every fn / assoc fn / closure body (optimized_mir at -Zmir-opt-level=0) as one JSON
// document. It contains NO rule logic: it is a faithful serializer; every verdict is computed by
// /verif/rules from this file.
//
// Used as RUSTC_WORKSPACE_WRAPPER under `cargo +nightly check`; output goes to $FACTDUMP_OUT.
#![feature(rustc_private)]

extern crate rustc_abi;
extern crate rustc_driver;
extern crate rustc_hir;
extern crate rustc_interface;
extern crate rustc_middle;
extern crate rustc_session;
extern crate rustc_span;

use rustc_driver::Compilation;
use rustc_hir::def::DefKind;
use rustc_hir::def_id::{DefId, LocalDefId, LOCAL_CRATE};
use rustc_interface::interface::Compiler;
use rustc_middle::mir::*;
use rustc_middle::ty::{self, GenericArgKind, Instance, Ty, TyCtxt, TypingEnv};
use std::fmt::Write as _;

// ---------------------------------------------------------------- JSON helpers
fn esc(s: &str) -> String {
    let mut o = String::with_capacity(s.len() + 2);
    o.push('"');
    for c in s.chars() {
        match c {
            '"' => o.push_str("\\\""),
            '\\' => o.push_str("\\\\"),
            '\n' => o.push_str("\\n"),
            '\r' => o.push_str("\\r"),
            '\t' => o.push_str("\\t"),
            c if (c as u32) < 0x20 => {
                let _ = write!(o, "\\u{:04x}", c as u32);
            }
            c => o.push(c),
        }
    }
    o.push('"');
    o
}
fn arr(items: Vec<String>) -> String {
    format!("[{}]", items.join(","))
}
fn obj(items: Vec<(&str, String)>) -> String {
    let v: Vec<String> = items.into_iter().map(|(k, v)| format!("{}:{}", esc(k), v)).collect();
    format!("{{{}}}", v.join(","))
}
fn b(x: bool) -> String {
    if x { "true".into() } else { "false".into() }
}
fn null() -> String {
    "null".into()
}

struct Cx<'tcx> {
    tcx: TyCtxt<'tcx>,
}

impl<'tcx> Cx<'tcx> {
    fn dpath(&self, d: DefId) -> String {
        // crate-qualified, disambiguated, stable def path: `caches::lru::raw::{impl#5}::capturing_put`
        format!("{}{}", self.tcx.crate_name(d.krate), self.tcx.def_path(d).to_string_no_crate_verbose())
    }

    fn adt_name(&self, d: DefId) -> String {
        ty::print::with_no_trimmed_paths!(self.tcx.def_path_str(d))
    }

    /// human/rule-facing qualified name: `Self::method`, `<Self as Trait>::method`, `Trait::method`
    fn qname(&self, d: DefId) -> String {
        let tcx = self.tcx;
        let kind = tcx.def_kind(d);
        match kind {
            DefKind::Closure => {
                let parent = tcx.parent(d);
                let n = tcx.def_path(d).data.last().map(|x| format!("{{closure#{}}}", x.disambiguator)).unwrap_or_default();
                return format!("{}::{}", self.qname(parent), n);
            }
            DefKind::AssocFn | DefKind::AssocConst { .. } | DefKind::AssocTy => {
                let parent = tcx.parent(d);
                let name = tcx.item_name(d).to_string();
                match tcx.def_kind(parent) {
                    DefKind::Impl { .. } => {
                        let self_ty = tcx.type_of(parent).instantiate_identity().skip_normalization();
                        let st = self.ty_head(self_ty);
                        if let Some(tr) = tcx.impl_opt_trait_ref(parent) {
                            let tr = tr.instantiate_identity().skip_normalization();
                            return format!("<{} as {}>::{}", st, self.adt_name(tr.def_id), name);
                        }
                        return format!("{}::{}", st, name);
                    }
                    DefKind::Trait => {
                        return format!("{}::{}", self.adt_name(parent), name);
                    }
                    _ => {}
                }
            }
            _ => {}
        }
        self.adt_name(d)
    }

    /// head of a type without generic arguments (ADT path, or the printed type)
    fn ty_head(&self, t: Ty<'tcx>) -> String {
        match t.kind() {
            ty::Adt(def, _) => self.adt_name(def.did()),
            ty::Ref(_, inner, m) => format!("&{}{}", if m.is_mut() { "mut " } else { "" }, self.ty_head(*inner)),
            _ => self.ty_str(t),
        }
    }

    fn ty_str(&self, t: Ty<'tcx>) -> String {
        ty::print::with_no_trimmed_paths!(format!("{}", t))
    }

    fn region(&self, r: ty::Region<'tcx>) -> String {
        match r.kind() {
            ty::ReEarlyParam(p) => obj(vec![("k", esc("early")), ("n", esc(p.name.as_str())), ("i", p.index.to_string())]),
            ty::ReBound(idx, br) => obj(vec![
                ("k", esc("late")),
                ("n", esc(&format!("{:?}", br.kind))),
                ("v", br.var.as_u32().to_string()),
                ("d", esc(&format!("{:?}", idx))),
            ]),
            ty::ReLateParam(p) => obj(vec![("k", esc("lateparam")), ("n", esc(&format!("{:?}", p.kind)))]),
            ty::ReStatic => obj(vec![("k", esc("static"))]),
            ty::ReErased => obj(vec![("k", esc("erased"))]),
            _ => obj(vec![("k", esc("other")), ("n", esc(&format!("{:?}", r)))]),
        }
    }

    /// structured type tree (for signatures and field types)
    fn ty_tree(&self, t: Ty<'tcx>) -> String {
        match t.kind() {
            ty::Ref(r, inner, m) => obj(vec![
                ("k", esc("ref")),
                ("r", self.region(*r)),
                ("m", b(m.is_mut())),
                ("t", self.ty_tree(*inner)),
            ]),
            ty::RawPtr(inner, m) => obj(vec![("k", esc("raw")), ("m", b(m.is_mut())), ("t", self.ty_tree(*inner))]),
            ty::Adt(def, args) => {
                let mut a = vec![];
                for ga in args.iter() {
                    a.push(self.garg_tree(ga));
                }
                obj(vec![("k", esc("adt")), ("n", esc(&self.adt_name(def.did()))), ("a", arr(a))])
            }
            ty::Tuple(ts) => obj(vec![("k", esc("tuple")), ("ts", arr(ts.iter().map(|x| self.ty_tree(x)).collect()))]),
            ty::Param(p) => obj(vec![("k", esc("param")), ("n", esc(p.name.as_str()))]),
            ty::Slice(inner) => obj(vec![("k", esc("slice")), ("t", self.ty_tree(*inner))]),
            ty::Array(inner, n) => {
                let l = n.try_to_target_usize(self.tcx).map(|x| x.to_string()).unwrap_or_else(|| format!("{}", n));
                obj(vec![("k", esc("array")), ("t", self.ty_tree(*inner)), ("len", esc(&l))])
            }
            ty::Alias(at) => {
                let mut a = vec![];
                for ga in at.args.iter() {
                    a.push(self.garg_tree(ga));
                }
                obj(vec![("k", esc("alias")), ("n", esc(&self.adt_name(at.kind.def_id()))), ("a", arr(a)), ("s", esc(&self.ty_str(t)))])
            }
            ty::Closure(d, _) => obj(vec![("k", esc("closure")), ("n", esc(&self.dpath(*d)))]),
            ty::FnDef(d, _) => obj(vec![("k", esc("fndef")), ("n", esc(&self.dpath(*d)))]),
            _ => obj(vec![("k", esc("prim")), ("n", esc(&self.ty_str(t)))]),
        }
    }

    fn garg_tree(&self, ga: ty::GenericArg<'tcx>) -> String {
        match ga.kind() {
            GenericArgKind::Type(t) => self.ty_tree(t),
            GenericArgKind::Lifetime(r) => obj(vec![("k", esc("region")), ("r", self.region(r))]),
            GenericArgKind::Const(c) => obj(vec![("k", esc("const")), ("n", esc(&format!("{}", c)))]),
        }
    }

    fn span_obj(&self, sp: rustc_span::Span) -> String {
        let sm = self.tcx.sess.source_map();
        let lo = sm.lookup_char_pos(sp.lo());
        let hi = sm.lookup_char_pos(sp.hi());
        let file = match &lo.file.name {
            rustc_span::FileName::Real(r) => match r.local_path() {
                Some(p) => p.to_string_lossy().to_string(),
                None => format!("{:?}", r),
            },
            other => format!("{:?}", other),
        };
        obj(vec![
            ("file", esc(&file)),
            ("lo", lo.line.to_string()),
            ("hi", hi.line.to_string()),
            ("exp", b(sp.from_expansion())),
        ])
    }

    fn line(&self, sp: rustc_span::Span) -> String {
        // line of the outermost (call-site) span: for macro expansions report the user's line
        let sp2 = sp.source_callsite();
        let sm = self.tcx.sess.source_map();
        let lo = sm.lookup_char_pos(sp2.lo());
        lo.line.to_string()
    }

    // ------------------------------------------------------------ items
    fn generics_of(&self, d: DefId) -> String {
        let g = self.tcx.generics_of(d);
        let mut v = vec![];
        let mut cur = Some(g);
        let mut chain = vec![];
        while let Some(g) = cur {
            chain.push(g);
            cur = g.parent.map(|p| self.tcx.generics_of(p));
        }
        chain.reverse();
        for g in chain {
            for p in &g.own_params {
                let k = match p.kind {
                    ty::GenericParamDefKind::Lifetime => "lifetime",
                    ty::GenericParamDefKind::Type { .. } => "type",
                    ty::GenericParamDefKind::Const { .. } => "const",
                };
                v.push(obj(vec![("n", esc(p.name.as_str())), ("k", esc(k)), ("i", p.index.to_string())]));
            }
        }
        arr(v)
    }

    fn predicates_of(&self, d: DefId) -> String {
        let preds = self.tcx.predicates_of(d).instantiate_identity(self.tcx);
        let mut v = vec![];
        for (p, _) in preds.predicates.iter().zip(preds.spans.iter()) {
            let p = p.skip_norm_wip();
            let s = ty::print::with_no_trimmed_paths!(format!("{}", p));
            // structured form for trait predicates `T: Trait`
            if let Some(tp) = p.as_trait_clause() {
                let tp = tp.skip_binder();
                v.push(obj(vec![
                    ("k", esc("trait")),
                    ("self", self.ty_tree(tp.self_ty())),
                    ("trait", esc(&self.adt_name(tp.def_id()))),
                    ("s", esc(&s)),
                ]));
            } else {
                v.push(obj(vec![("k", esc("other")), ("s", esc(&s))]));
            }
        }
        arr(v)
    }

    fn dump_adts(&self) -> String {
        let tcx = self.tcx;
        let mut out = vec![];
        for id in tcx.hir_free_items() {
            let d = id.owner_id.to_def_id();
            match tcx.def_kind(d) {
                DefKind::Struct | DefKind::Enum | DefKind::Union => {
                    let adt = tcx.adt_def(d);
                    let mut vs = vec![];
                    for v in adt.variants() {
                        let mut fs = vec![];
                        for f in &v.fields {
                            let fty = tcx.type_of(f.did).instantiate_identity().skip_normalization();
                            fs.push(obj(vec![
                                ("n", esc(f.name.as_str())),
                                ("ty", esc(&self.ty_str(fty))),
                                ("tt", self.ty_tree(fty)),
                                ("vis", esc(&format!("{:?}", f.vis))),
                            ]));
                        }
                        vs.push(obj(vec![("n", esc(v.name.as_str())), ("fields", arr(fs))]));
                    }
                    out.push(obj(vec![
                        ("path", esc(&self.dpath(d))),
                        ("name", esc(&self.adt_name(d))),
                        ("kind", esc(&format!("{:?}", tcx.def_kind(d)))),
                        ("exported", b(tcx.effective_visibilities(()).is_exported(d.expect_local()))),
                        ("generics", self.generics_of(d)),
                        ("variants", arr(vs)),
                        ("span", self.span_obj(tcx.def_span(d))),
                    ]));
                }
                _ => {}
            }
        }
        arr(out)
    }

    fn dump_impls(&self) -> String {
        let tcx = self.tcx;
        let mut out = vec![];
        for id in tcx.hir_free_items() {
            let d = id.owner_id.to_def_id();
            if let DefKind::Impl { .. } = tcx.def_kind(d) {
                let self_ty = tcx.type_of(d).instantiate_identity().skip_normalization();
                let (tr, tr_args, polarity) = match tcx.impl_opt_trait_ref(d) {
                    Some(t) => {
                        let t = t.instantiate_identity().skip_normalization();
                        let a: Vec<String> = t.args.iter().map(|g| self.garg_tree(g)).collect();
                        (esc(&self.adt_name(t.def_id)), arr(a), esc(&format!("{:?}", tcx.impl_polarity(d))))
                    }
                    None => (null(), arr(vec![]), null()),
                };
                let safety = if tcx.impl_opt_trait_ref(d).is_some() {
                    format!("{:?}", tcx.impl_trait_header(d).safety)
                } else {
                    "Safe".to_string()
                };
                let items: Vec<String> = tcx.associated_item_def_ids(d).iter().map(|x| esc(&self.dpath(*x))).collect();
                out.push(obj(vec![
                    ("path", esc(&self.dpath(d))),
                    ("self_ty", esc(&self.ty_str(self_ty))),
                    ("self_head", esc(&self.ty_head(self_ty))),
                    ("self_tt", self.ty_tree(self_ty)),
                    ("trait", tr),
                    ("trait_args", tr_args),
                    ("polarity", polarity),
                    ("safety", esc(&safety)),
                    ("generics", self.generics_of(d)),
                    ("preds", self.predicates_of(d)),
                    ("items", arr(items)),
                    ("span", self.span_obj(tcx.def_span(d))),
                ]));
            }
        }
        arr(out)
    }

    fn dump_traits(&self) -> String {
        let tcx = self.tcx;
        let mut out = vec![];
        for id in tcx.hir_free_items() {
            let d = id.owner_id.to_def_id();
            if let DefKind::Trait = tcx.def_kind(d) {
                let mut items = vec![];
                for it in tcx.associated_item_def_ids(d) {
                    if tcx.def_kind(*it) == DefKind::AssocFn {
                        items.push(self.fn_item(it.expect_local()));
                    }
                }
                out.push(obj(vec![
                    ("path", esc(&self.dpath(d))),
                    ("name", esc(&self.adt_name(d))),
                    ("exported", b(tcx.effective_visibilities(()).is_exported(d.expect_local()))),
                    ("fns", arr(items)),
                ]));
            }
        }
        arr(out)
    }

    fn fn_item(&self, ld: LocalDefId) -> String {
        let tcx = self.tcx;
        let d = ld.to_def_id();
        let kind = tcx.def_kind(d);
        let mut fields: Vec<(&str, String)> = vec![
            ("path", esc(&self.dpath(d))),
            ("q", esc(&self.qname(d))),
            ("kind", esc(&format!("{:?}", kind))),
            ("span", self.span_obj(tcx.def_span(d))),
        ];
        if matches!(kind, DefKind::Fn | DefKind::AssocFn) {
            fields.push(("name", esc(tcx.item_name(d).as_str())));
            fields.push(("exported", b(tcx.effective_visibilities(()).is_exported(ld))));
            fields.push(("vis", esc(&format!("{:?}", tcx.visibility(d)))));
            let sig = tcx.fn_sig(d).instantiate_identity().skip_normalization();
            let sig_sb = sig.skip_binder();
            let ins: Vec<String> = sig_sb.inputs().iter().map(|t| self.ty_tree(*t)).collect();
            fields.push(("inputs", arr(ins)));
            fields.push(("output", self.ty_tree(sig_sb.output())));
            fields.push(("sig", esc(&ty::print::with_no_trimmed_paths!(format!("{}", sig)))));
            fields.push(("unsafe", b(!sig_sb.safety().is_safe())));
            fields.push(("generics", self.generics_of(d)));
            fields.push(("preds", self.predicates_of(d)));
            if kind == DefKind::AssocFn {
                let parent = tcx.parent(d);
                fields.push(("parent", esc(&self.dpath(parent))));
                fields.push(("parent_kind", esc(&format!("{:?}", tcx.def_kind(parent)))));
                let ai = tcx.associated_item(d);
                fields.push(("has_self", b(ai.is_method())));
            }
        } else if kind == DefKind::Closure {
            fields.push(("parent", esc(&self.dpath(tcx.parent(d)))));
        }
        obj(fields)
    }

    // ------------------------------------------------------------ MIR
    fn place(&self, body: &Body<'tcx>, p: &Place<'tcx>) -> String {
        let tcx = self.tcx;
        let mut projs = vec![];
        for (base, elem) in p.iter_projections() {
            let base_ty = base.ty(&body.local_decls, tcx);
            match elem {
                ProjectionElem::Deref => projs.push(esc("deref")),
                ProjectionElem::Field(f, fty) => {
                    let name = match base_ty.ty.kind() {
                        ty::Adt(def, _) => {
                            let v = match base_ty.variant_index {
                                Some(vi) => def.variant(vi),
                                None => def.non_enum_variant(),
                            };
                            v.fields[f].name.to_string()
                        }
                        _ => format!("{}", f.as_u32()),
                    };
                    let adt = match base_ty.ty.kind() {
                        ty::Adt(def, _) => esc(&self.adt_name(def.did())),
                        ty::Closure(..) => esc("{closure}"),
                        ty::Tuple(..) => esc("(tuple)"),
                        _ => null(),
                    };
                    projs.push(obj(vec![("f", f.as_u32().to_string()), ("n", esc(&name)), ("of", adt), ("ty", esc(&self.ty_str(fty)))]));
                }
                ProjectionElem::Downcast(name, vi) => {
                    let n = name.map(|s| s.to_string()).unwrap_or_default();
                    projs.push(obj(vec![("dc", esc(&n)), ("i", vi.as_u32().to_string())]));
                }
                ProjectionElem::Index(l) => projs.push(obj(vec![("idx", l.as_u32().to_string())])),
                ProjectionElem::ConstantIndex { offset, min_length, from_end } => projs.push(obj(vec![
                    ("cidx", offset.to_string()),
                    ("min", min_length.to_string()),
                    ("from_end", b(from_end)),
                ])),
                ProjectionElem::Subslice { from, to, from_end } => {
                    projs.push(obj(vec![("sub", from.to_string()), ("to", to.to_string()), ("from_end", b(from_end))]))
                }
                ProjectionElem::OpaqueCast(_) => projs.push(esc("opaque")),
                ProjectionElem::UnwrapUnsafeBinder(_) => projs.push(esc("unwrap_binder")),
            }
        }
        obj(vec![("l", p.local.as_u32().to_string()), ("p", arr(projs))])
    }

    fn fn_const(&self, body_def: DefId, d: DefId, args: ty::GenericArgsRef<'tcx>) -> String {
        let tcx = self.tcx;
        let mut gas = vec![];
        let mut closures = vec![];
        for ga in args.iter() {
            gas.push(esc(&ty::print::with_no_trimmed_paths!(format!("{}", ga))));
            if let GenericArgKind::Type(t) = ga.kind() {
                t.walk().for_each(|x| {
                    if let GenericArgKind::Type(t2) = x.kind() {
                        if let ty::Closure(cd, _) = t2.kind() {
                            closures.push(esc(&self.dpath(*cd)));
                        }
                    }
                });
            }
        }
        let mut fields: Vec<(&str, String)> = vec![
            ("def", esc(&self.dpath(d))),
            ("q", esc(&self.qname(d))),
            ("local", b(d.is_local())),
            ("args", arr(gas)),
            ("closures", arr(closures)),
        ];
        // trait method? record the trait and the Self type
        if let Some(tr) = tcx.trait_of_assoc(d) {
            fields.push(("trait", esc(&self.adt_name(tr))));
            if let Some(st) = args.types().next() {
                fields.push(("self_ty", esc(&self.ty_str(st))));
                fields.push(("self_tt", self.ty_tree(st)));
            }
        } else if tcx.def_kind(d) == DefKind::AssocFn {
            let parent = tcx.parent(d);
            if let DefKind::Impl { .. } = tcx.def_kind(parent) {
                // inherent method: Self type instantiated with the call's generic args
                let st = tcx.type_of(parent).instantiate(tcx, args).skip_normalization();
                fields.push(("self_ty", esc(&self.ty_str(st))));
                fields.push(("self_tt", self.ty_tree(st)));
            }
        }
        // resolution in the (polymorphic) environment of the calling body
        let env = TypingEnv::post_analysis(tcx, body_def);
        let resolved = std::panic::catch_unwind(std::panic::AssertUnwindSafe(|| Instance::try_resolve(tcx, env, d, args)));
        match resolved {
            Ok(Ok(Some(inst))) => {
                let rd = inst.def_id();
                fields.push((
                    "resolved",
                    obj(vec![
                        ("def", esc(&self.dpath(rd))),
                        ("q", esc(&self.qname(rd))),
                        ("local", b(rd.is_local())),
                        ("kind", esc(&format!("{:?}", std::mem::discriminant(&inst.def)).replace("Discriminant", ""))),
                        ("shim", b(!matches!(inst.def, ty::InstanceKind::Item(_)))),
                    ]),
                ));
            }
            _ => fields.push(("resolved", null())),
        }
        obj(fields)
    }

    fn operand(&self, body_def: DefId, body: &Body<'tcx>, o: &Operand<'tcx>) -> String {
        match o {
            Operand::Copy(p) => obj(vec![("k", esc("copy")), ("p", self.place(body, p))]),
            Operand::Move(p) => obj(vec![("k", esc("move")), ("p", self.place(body, p))]),
            Operand::Constant(c) => {
                let t = c.const_.ty();
                let mut fields: Vec<(&str, String)> = vec![("k", esc("const")), ("ty", esc(&self.ty_str(t)))];
                match t.kind() {
                    ty::FnDef(d, args) => fields.push(("fn", self.fn_const(body_def, *d, args))),
                    _ => {
                        let s = ty::print::with_no_trimmed_paths!(format!("{}", c.const_));
                        fields.push(("v", esc(&s)));
                        if let Const::Unevaluated(uv, _) = c.const_ {
                            if let Some(pi) = uv.promoted {
                                fields.push(("promoted", esc(&format!("{}::promoted[{}]", self.dpath(uv.def), pi.as_u32()))));
                            }
                        }
                        // integer / bool / char scalars as exact values (named constants are evaluated)
                        let env = TypingEnv::post_analysis(self.tcx, body_def);
                        let evald = if t.is_integral() || t.is_bool() || t.is_char() || t.is_floating_point() {
                            std::panic::catch_unwind(std::panic::AssertUnwindSafe(|| c.const_.try_eval_scalar_int(self.tcx, env))).ok().flatten()
                        } else {
                            None
                        };
                        if t.is_floating_point() {
                            if let Some(si) = evald {
                                let size = si.size();
                                let raw = si.to_bits(size);
                                let fv: f64 = if size.bytes() == 8 { f64::from_bits(raw as u64) } else { f32::from_bits(raw as u32) as f64 };
                                fields.push(("float", esc(&format!("{:e}", fv))));
                            }
                        }
                        if let Some(si) = evald {
                            if t.is_integral() || t.is_bool() || t.is_char() {
                                let size = si.size();
                                let raw = si.to_bits(size);
                                let val: String = if t.is_signed() {
                                    let v = size.sign_extend(raw) as i128;
                                    v.to_string()
                                } else {
                                    raw.to_string()
                                };
                                fields.push(("int", esc(&val)));
                            }
                        }
                    }
                }
                obj(fields)
            }
            #[allow(unreachable_patterns)]
            _ => obj(vec![("k", esc("other")), ("s", esc(&format!("{:?}", o)))]),
        }
    }

    fn rvalue(&self, body_def: DefId, body: &Body<'tcx>, rv: &Rvalue<'tcx>) -> String {
        let tcx = self.tcx;
        match rv {
            Rvalue::Use(o, ..) => obj(vec![("k", esc("use")), ("o", self.operand(body_def, body, o))]),
            Rvalue::Repeat(o, n) => obj(vec![("k", esc("repeat")), ("o", self.operand(body_def, body, o)), ("n", esc(&format!("{}", n)))]),
            Rvalue::Ref(_, bk, p) => {
                let m = match bk {
                    BorrowKind::Shared => "shared",
                    BorrowKind::Fake(_) => "fake",
                    BorrowKind::Mut { .. } => "mut",
                };
                obj(vec![("k", esc("ref")), ("m", esc(m)), ("p", self.place(body, p))])
            }
            Rvalue::ThreadLocalRef(d) => obj(vec![("k", esc("tls")), ("d", esc(&self.dpath(*d)))]),
            Rvalue::RawPtr(k, p) => {
                let m = format!("{:?}", k);
                obj(vec![("k", esc("rawptr")), ("m", esc(&m)), ("p", self.place(body, p))])
            }
            Rvalue::Cast(ck, o, t) => {
                let from = o.ty(&body.local_decls, tcx);
                obj(vec![
                    ("k", esc("cast")),
                    ("ck", esc(&format!("{:?}", ck))),
                    ("o", self.operand(body_def, body, o)),
                    ("from", esc(&self.ty_str(from))),
                    ("ty", esc(&self.ty_str(*t))),
                ])
            }
            Rvalue::BinaryOp(op, ab) => {
                let (a, bb) = &**ab;
                let ta = a.ty(&body.local_decls, tcx);
                obj(vec![
                    ("k", esc("bin")),
                    ("op", esc(&format!("{:?}", op))),
                    ("a", self.operand(body_def, body, a)),
                    ("b", self.operand(body_def, body, bb)),
                    ("ty", esc(&self.ty_str(ta))),
                ])
            }
            Rvalue::UnaryOp(op, a) => obj(vec![("k", esc("un")), ("op", esc(&format!("{:?}", op))), ("a", self.operand(body_def, body, a))]),
            Rvalue::Discriminant(p) => {
                let pt = p.ty(&body.local_decls, tcx).ty;
                let mut variants = vec![];
                if let ty::Adt(def, _) = pt.kind() {
                    if def.is_enum() {
                        for (vi, v) in def.variants().iter_enumerated() {
                            let dv = def.discriminant_for_variant(tcx, vi).val;
                            variants.push(obj(vec![("n", esc(v.name.as_str())), ("v", esc(&dv.to_string()))]));
                        }
                    }
                }
                obj(vec![
                    ("k", esc("discr")),
                    ("p", self.place(body, p)),
                    ("of", esc(&self.ty_head(pt))),
                    ("ty", esc(&self.ty_str(pt))),
                    ("variants", arr(variants)),
                ])
            }
            Rvalue::Aggregate(kind, ops) => {
                let os: Vec<String> = ops.iter().map(|o| self.operand(body_def, body, o)).collect();
                let mut fields: Vec<(&str, String)> = vec![("k", esc("agg"))];
                match &**kind {
                    AggregateKind::Tuple => fields.push(("ak", esc("tuple"))),
                    AggregateKind::Array(_) => fields.push(("ak", esc("array"))),
                    AggregateKind::Adt(d, vi, _args, _, active) => {
                        let def = tcx.adt_def(*d);
                        let v = def.variant(*vi);
                        fields.push(("ak", esc("adt")));
                        fields.push(("adt", esc(&self.adt_name(*d))));
                        fields.push(("variant", esc(v.name.as_str())));
                        fields.push(("is_enum", b(def.is_enum())));
                        let names: Vec<String> = match active {
                            Some(f) => vec![esc(v.fields[*f].name.as_str())],
                            None => v.fields.iter().map(|f| esc(f.name.as_str())).collect(),
                        };
                        fields.push(("fields", arr(names)));
                    }
                    AggregateKind::Closure(d, _) => {
                        fields.push(("ak", esc("closure")));
                        fields.push(("closure", esc(&self.dpath(*d))));
                    }
                    AggregateKind::RawPtr(_, m) => {
                        fields.push(("ak", esc("rawptr")));
                        fields.push(("m", b(m.is_mut())));
                    }
                    other => {
                        fields.push(("ak", esc("other")));
                        fields.push(("s", esc(&format!("{:?}", other))));
                    }
                }
                fields.push(("os", arr(os)));
                obj(fields)
            }
            Rvalue::CopyForDeref(p) => obj(vec![("k", esc("use")), ("o", obj(vec![("k", esc("copy")), ("p", self.place(body, p))]))]),
            Rvalue::WrapUnsafeBinder(o, _) => obj(vec![("k", esc("use")), ("o", self.operand(body_def, body, o))]),
            #[allow(unreachable_patterns)]
            other => obj(vec![("k", esc("other")), ("s", esc(&format!("{:?}", other)))]),
        }
    }

    fn unwind(&self, u: &UnwindAction) -> String {
        match u {
            UnwindAction::Continue => esc("continue"),
            UnwindAction::Unreachable => esc("unreachable"),
            UnwindAction::Terminate(_) => esc("terminate"),
            UnwindAction::Cleanup(bb) => bb.as_u32().to_string(),
        }
    }

    fn body(&self, ld: LocalDefId) -> String {
        let d = ld.to_def_id();
        let body: &Body<'tcx> = self.tcx.optimized_mir(d);
        self.body_json(d, body, self.dpath(d))
    }

    /// the promoted constants of a body (`&(0.0..=1.0)`, `&[..]`, ...) as bodies of their own: path `<fn path>::promoted[i]`
    fn promoted(&self, ld: LocalDefId) -> Vec<String> {
        let d = ld.to_def_id();
        let mut out = vec![];
        for (i, pb) in self.tcx.promoted_mir(d).iter_enumerated() {
            out.push(self.body_json(d, pb, format!("{}::promoted[{}]", self.dpath(d), i.as_u32())));
        }
        out
    }

    fn body_json(&self, d: DefId, body: &Body<'tcx>, path: String) -> String {
        let tcx = self.tcx;
        let mut names: std::collections::HashMap<u32, String> = Default::default();
        let mut upvar_names: Vec<String> = vec![];
        for vdi in &body.var_debug_info {
            if let VarDebugInfoContents::Place(p) = &vdi.value {
                if p.projection.is_empty() {
                    names.entry(p.local.as_u32()).or_insert(vdi.name.to_string());
                } else if p.local.as_u32() == 1 {
                    // closure upvar: _1.N or (*_1).N
                    upvar_names.push(obj(vec![("n", esc(vdi.name.as_str())), ("p", self.place(body, p))]));
                }
            }
        }
        let mut locals = vec![];
        for (l, decl) in body.local_decls.iter_enumerated() {
            let mut f: Vec<(&str, String)> = vec![("ty", esc(&self.ty_str(decl.ty))), ("head", esc(&self.ty_head(decl.ty)))];
            if let Some(n) = names.get(&l.as_u32()) {
                f.push(("name", esc(n)));
            }
            locals.push(obj(f));
        }
        let mut blocks = vec![];
        for (_bb, data) in body.basic_blocks.iter_enumerated() {
            let mut stmts = vec![];
            for st in &data.statements {
                match &st.kind {
                    StatementKind::Assign(bx) => {
                        let (p, rv) = &**bx;
                        stmts.push(obj(vec![
                            ("k", esc("assign")),
                            ("p", self.place(body, p)),
                            ("r", self.rvalue(d, body, rv)),
                            ("ln", self.line(st.source_info.span)),
                            ("exp", b(st.source_info.span.from_expansion())),
                        ]));
                    }
                    StatementKind::SetDiscriminant { place, variant_index } => {
                        stmts.push(obj(vec![
                            ("k", esc("setdiscr")),
                            ("p", self.place(body, place)),
                            ("i", variant_index.as_u32().to_string()),
                            ("ln", self.line(st.source_info.span)),
                        ]));
                    }
                    StatementKind::Intrinsic(i) => {
                        stmts.push(obj(vec![("k", esc("intrinsic")), ("s", esc(&format!("{:?}", i))), ("ln", self.line(st.source_info.span))]));
                    }
                    _ => {}
                }
            }
            let term = data.terminator();
            let ln = self.line(term.source_info.span);
            let exp = b(term.source_info.span.from_expansion());
            let t = match &term.kind {
                TerminatorKind::Goto { target } => obj(vec![("k", esc("goto")), ("t", target.as_u32().to_string())]),
                TerminatorKind::SwitchInt { discr, targets } => {
                    let mut vals = vec![];
                    let mut ts = vec![];
                    for (v, t) in targets.iter() {
                        vals.push(esc(&v.to_string()));
                        ts.push(t.as_u32().to_string());
                    }
                    let dty = discr.ty(&body.local_decls, tcx);
                    obj(vec![
                        ("k", esc("switch")),
                        ("o", self.operand(d, body, discr)),
                        ("ty", esc(&self.ty_str(dty))),
                        ("vals", arr(vals)),
                        ("ts", arr(ts)),
                        ("otherwise", targets.otherwise().as_u32().to_string()),
                        ("ln", ln),
                    ])
                }
                TerminatorKind::UnwindResume => obj(vec![("k", esc("resume"))]),
                TerminatorKind::UnwindTerminate(_) => obj(vec![("k", esc("terminate"))]),
                TerminatorKind::Return => obj(vec![("k", esc("ret")), ("ln", ln)]),
                TerminatorKind::Unreachable => obj(vec![("k", esc("unreachable"))]),
                TerminatorKind::Drop { place, target, unwind, .. } => {
                    let pt = place.ty(&body.local_decls, tcx).ty;
                    obj(vec![
                        ("k", esc("drop")),
                        ("p", self.place(body, place)),
                        ("ty", esc(&self.ty_str(pt))),
                        ("head", esc(&self.ty_head(pt))),
                        ("t", target.as_u32().to_string()),
                        ("u", self.unwind(unwind)),
                        ("ln", ln),
                    ])
                }
                TerminatorKind::Call { func, args, destination, target, unwind, fn_span, .. } => {
                    let a: Vec<String> = args.iter().map(|x| self.operand(d, body, &x.node)).collect();
                    let aty: Vec<String> = args.iter().map(|x| esc(&self.ty_str(x.node.ty(&body.local_decls, tcx)))).collect();
                    let f = match func {
                        Operand::Constant(c) => match c.const_.ty().kind() {
                            ty::FnDef(fd, fargs) => self.fn_const(d, *fd, fargs),
                            _ => obj(vec![("indirect", self.operand(d, body, func))]),
                        },
                        _ => obj(vec![("indirect", self.operand(d, body, func))]),
                    };
                    let dty = destination.ty(&body.local_decls, tcx).ty;
                    obj(vec![
                        ("k", esc("call")),
                        ("f", f),
                        ("args", arr(a)),
                        ("arg_tys", arr(aty)),
                        ("d", self.place(body, destination)),
                        ("dty", esc(&self.ty_str(dty))),
                        ("t", target.map(|t| t.as_u32().to_string()).unwrap_or(null())),
                        ("u", self.unwind(unwind)),
                        ("ln", self.line(*fn_span)),
                        ("exp", b(fn_span.from_expansion())),
                    ])
                }
                TerminatorKind::Assert { cond, expected, msg, target, unwind } => {
                    let (mk, mops): (String, Vec<String>) = match &**msg {
                        AssertKind::BoundsCheck { len, index } => ("BoundsCheck".into(), vec![self.operand(d, body, len), self.operand(d, body, index)]),
                        AssertKind::Overflow(op, a, bb) => (format!("Overflow({:?})", op), vec![self.operand(d, body, a), self.operand(d, body, bb)]),
                        AssertKind::OverflowNeg(a) => ("OverflowNeg".into(), vec![self.operand(d, body, a)]),
                        AssertKind::DivisionByZero(a) => ("DivisionByZero".into(), vec![self.operand(d, body, a)]),
                        AssertKind::RemainderByZero(a) => ("RemainderByZero".into(), vec![self.operand(d, body, a)]),
                        other => (format!("{:?}", std::mem::discriminant(other)), vec![]),
                    };
                    obj(vec![
                        ("k", esc("assert")),
                        ("c", self.operand(d, body, cond)),
                        ("expected", b(*expected)),
                        ("msg", esc(&mk)),
                        ("ops", arr(mops)),
                        ("t", target.as_u32().to_string()),
                        ("u", self.unwind(unwind)),
                        ("ln", ln),
                        ("exp", exp),
                    ])
                }
                other => obj(vec![("k", esc("other")), ("s", esc(&format!("{:?}", other)))]),
            };
            blocks.push(obj(vec![("c", b(data.is_cleanup)), ("s", arr(stmts)), ("t", t)]));
        }
        obj(vec![
            ("path", esc(&path)),
            ("arg_count", body.arg_count.to_string()),
            ("locals", arr(locals)),
            ("upvars", arr(upvar_names)),
            ("blocks", arr(blocks)),
        ])
    }
}

struct Dump;

impl rustc_driver::Callbacks for Dump {
    fn after_analysis<'tcx>(&mut self, _c: &Compiler, tcx: TyCtxt<'tcx>) -> Compilation {
        let out = match std::env::var("FACTDUMP_OUT") {
            Ok(o) => o,
            Err(_) => return Compilation::Continue,
        };
        let want = std::env::var("FACTDUMP_CRATE").unwrap_or_else(|_| "caches".to_string());
        if tcx.crate_name(LOCAL_CRATE).as_str() != want {
            return Compilation::Continue;
        }
        let cx = Cx { tcx };
        let mut fns = vec![];
        let mut bodies = vec![];
        let mut promoted = vec![];
        for ld in tcx.hir_body_owners() {
            let kind = tcx.def_kind(ld.to_def_id());
            if !matches!(kind, DefKind::Fn | DefKind::AssocFn | DefKind::Closure) {
                continue;
            }
            fns.push(cx.fn_item(ld));
            bodies.push(cx.body(ld));
            promoted.extend(cx.promoted(ld));
        }
        let n = bodies.len();
        let mut feats: Vec<String> = tcx
            .sess
            .config
            .iter()
            .filter(|(k, _)| k.as_str() == "feature")
            .map(|(_, v)| esc(v.map(|s| s.to_string()).unwrap_or_default().as_str()))
            .collect();
        feats.sort();
        let doc = obj(vec![
            ("crate", esc(tcx.crate_name(LOCAL_CRATE).as_str())),
            ("cfg", arr(feats)),
            ("n_bodies", n.to_string()),
            ("adts", cx.dump_adts()),
            ("impls", cx.dump_impls()),
            ("traits", cx.dump_traits()),
            ("fns", arr(fns)),
            ("bodies", arr(bodies)),
            ("promoted", arr(promoted)),
        ]);
        std::fs::write(&out, doc).expect("factdump: cannot write output");
        Compilation::Continue
    }
}

fn main() {
    let mut args: Vec<String> = std::env::args().collect();
    // as RUSTC_WORKSPACE_WRAPPER we are invoked as `factdump <path-to-rustc> <rustc args…>`
    if args.len() > 1 && (args[1].ends_with("rustc") || args[1].contains("/rustc")) {
        args.remove(1);
    }
    rustc_driver::run_compiler(&args, &mut Dump);
}
